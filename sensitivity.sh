#!/bin/bash
# Sensitivity self-test: every committed mutant of a property must be caught
# by that property's check (exit 1) when applied to a scratch worktree.
#   ./sensitivity.sh <id> [tier] [--verify]   (--verify also runs go build/test on the mutant, guard off)
set -u
VERIF=$(cd "$(dirname "$0")" && pwd)
id=${1:?usage: sensitivity.sh <id> [tier] [--verify]}
tier=${2:-quick}
verify=${3:-}
export GOFLAGS=-mod=mod GOPROXY=off GOSUMDB=off GOTOOLCHAIN=local
fail=0
mkdir -p /root/scratch
for patch in "$VERIF"/mutants/$id-*.patch "$VERIF"/seeded/*/patch.diff; do
  [ -f "$patch" ] || continue
  case "$patch" in
    */seeded/*) grep -q "\"property\": *\"$id\"" "$(dirname "$patch")/meta.json" 2>/dev/null || continue;;
  esac
  name=$(basename "$(dirname "$patch")")/$(basename "$patch")
  dir=$(mktemp -d /root/scratch/mut-XXXXXX)
  rmdir "$dir"
  git -C /repo worktree add -q --detach "$dir" HEAD || { echo "cannot create worktree"; exit 2; }
  if ! git -C "$dir" apply "$patch" 2>/dev/null && ! git -C "$dir" apply -3 "$patch" >/dev/null 2>&1; then
    echo "SKIP  $name (patch does not apply)"; git -C /repo worktree remove --force "$dir"; continue
  fi
  if [ "$verify" = --verify ]; then
    if ! (cd "$dir" && go1.26.8 build ./... && timeout 300 go1.26.8 test -count=1 -timeout 120s ./... >/dev/null 2>&1); then
      echo "WARN  $name: mutant does not build or fails the repository's suite"
    fi
  fi
  out=$(VERIF_REPO=$dir "$VERIF/check" "$id" "$tier" -no-evidence 2>&1); rc=$?
  sfx=$(echo "$dir" | tr '/' '_')
  rm -f "$VERIF/bin/verifsim$sfx" "$VERIF/bin/verifsim-race$sfx" "$VERIF"/.build/go$sfx.* "$VERIF"/.build/build-*$sfx.log
  git -C /repo worktree remove --force "$dir"
  if [ $rc -eq 1 ]; then
    echo "CAUGHT $name: $(echo "$out" | grep -m1 -o 'violation class=.*')"
  else
    echo "MISSED $name (exit $rc)"; fail=1
    echo "$out" | tail -3
  fi
done
git -C /repo worktree prune
exit $fail
