// Package simio is the simulated transport of the command: a reader whose
// every Read is decided by an explicit schedule (how many bytes, when EOF
// arrives, where the stream is truncated or fails) and a writer that records
// and may refuse bytes.
package simio

import (
	"errors"
	"io"
)

var ErrIO = errors.New("simulated I/O error")

// ReadPlan is the replayable decision list of one input stream.
type ReadPlan struct {
	// Chunks are the byte counts successive Read calls deliver (0 = a (0, nil)
	// read); when the list runs dry the rest is delivered in Rest-sized reads
	// (0 = as much as the caller's buffer takes).
	Chunks []int `json:"chunks,omitempty"`
	Rest   int   `json:"rest,omitempty"`
	// EOFWithData: the read that delivers the last byte also returns io.EOF.
	EOFWithData bool `json:"eof_with_data,omitempty"`
	// Fault: "" none, "truncate" = clean EOF at FaultAt, "error" = ErrIO once
	// FaultAt bytes were delivered (with the data if ErrWithData).
	Fault       string `json:"fault,omitempty"`
	FaultAt     int    `json:"fault_at,omitempty"`
	ErrWithData bool   `json:"err_with_data,omitempty"`
	Seekable    bool   `json:"seekable,omitempty"`
}

type ReadEvent struct {
	Want, Got int
	Err       string
}

type Reader struct {
	data  []byte
	pos   int
	plan  ReadPlan
	next  int
	Log   []ReadEvent
	Reads int
	// counters for evidence
	ZeroReads, FaultsFired int
	failed                 bool
}

func NewReader(data []byte, plan ReadPlan) io.Reader {
	if plan.Fault == "truncate" && plan.FaultAt < len(data) {
		data = data[:plan.FaultAt]
	}
	r := &Reader{data: data, plan: plan}
	if plan.Seekable {
		return &SeekReader{r}
	}
	return r
}

func Unwrap(r io.Reader) *Reader {
	switch r := r.(type) {
	case *Reader:
		return r
	case *SeekReader:
		return r.Reader
	}
	return nil
}

func (r *Reader) Read(p []byte) (n int, err error) {
	r.Reads++
	defer func() {
		e := ""
		if err != nil {
			e = err.Error()
		}
		if len(r.Log) < 4096 {
			r.Log = append(r.Log, ReadEvent{len(p), n, e})
		}
	}()
	if r.failed {
		return 0, ErrIO
	}
	limit := len(r.data)
	if r.plan.Fault == "error" && r.plan.FaultAt < limit {
		limit = r.plan.FaultAt
	}
	if r.pos >= limit {
		if r.plan.Fault == "error" && r.plan.FaultAt < len(r.data) {
			r.failed = true
			r.FaultsFired++
			return 0, ErrIO
		}
		return 0, io.EOF
	}
	want := 0
	if r.next < len(r.plan.Chunks) {
		want = r.plan.Chunks[r.next]
		r.next++
		if want == 0 {
			r.ZeroReads++
			return 0, nil
		}
	} else {
		want = r.plan.Rest
		if want <= 0 {
			want = len(p)
		}
	}
	if len(p) == 0 {
		return 0, nil
	}
	n = min(want, len(p), limit-r.pos)
	copy(p, r.data[r.pos:r.pos+n])
	r.pos += n
	if r.pos >= limit {
		if r.plan.Fault == "error" && r.plan.FaultAt < len(r.data) {
			if r.plan.ErrWithData {
				r.failed = true
				r.FaultsFired++
				return n, ErrIO
			}
		} else if r.plan.EOFWithData {
			return n, io.EOF
		}
	}
	return n, nil
}

func (r *Reader) Delivered() int { return r.pos }

// SeekReader is the same stream offering Seek (a regular file read through a
// descriptor): gojq re-reads it from the start to print error positions.
type SeekReader struct{ *Reader }

func (s *SeekReader) Seek(offset int64, whence int) (int64, error) {
	var abs int64
	switch whence {
	case io.SeekStart:
		abs = offset
	case io.SeekCurrent:
		abs = int64(s.pos) + offset
	case io.SeekEnd:
		abs = int64(len(s.data)) + offset
	}
	if abs < 0 {
		return 0, errors.New("negative position")
	}
	if abs > int64(len(s.data)) {
		abs = int64(len(s.data))
	}
	s.pos = int(abs)
	return abs, nil
}

// Writer records every Write; from byte FailAt on (if >= 0) it refuses bytes.
type Writer struct {
	Buf    []byte
	Writes int
	FailAt int // -1 = never
	Failed bool
	Sizes  []int
}

func NewWriter(failAt int) *Writer { return &Writer{FailAt: failAt} }

func (w *Writer) Write(p []byte) (int, error) {
	w.Writes++
	if len(w.Sizes) < 4096 {
		w.Sizes = append(w.Sizes, len(p))
	}
	if w.FailAt >= 0 && len(w.Buf)+len(p) > w.FailAt {
		n := w.FailAt - len(w.Buf)
		if n < 0 {
			n = 0
		}
		w.Buf = append(w.Buf, p[:n]...)
		w.Failed = true
		return n, ErrIO
	}
	w.Buf = append(w.Buf, p...)
	return len(p), nil
}

func (w *Writer) String() string { return string(w.Buf) }
