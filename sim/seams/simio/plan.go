package simio

import (
	"sort"

	"verif/sim/kernel"
)

var fixedSizes = []int{1, 2, 3, 7, 64, 100, 511, 512, 513, 4095, 4096, 4097, 16383, 16384, 16385, 65536}

// GenPlan draws a delivery schedule for a stream of n bytes. interesting lists
// byte offsets a schedule may be made to straddle (inside a multi-byte
// character or a token, a document boundary, multiples of the window size).
// The class name is returned for evidence.
func GenPlan(r *kernel.Rand, n int, interesting []int) (ReadPlan, string) {
	var p ReadPlan
	p.EOFWithData = r.Bool(0.5)
	class := ""
	switch r.Weighted([]int{3, 6, 3, 4, 2}) {
	case 0:
		class = "whole"
	case 1:
		p.Rest = kernel.Pick(r, fixedSizes)
		class = "fixed"
	case 2:
		class = "geometric"
		for tot := 0; tot < n && len(p.Chunks) < 2000; {
			c := 1
			for c < 70000 && r.Bool(0.75) {
				c *= 2
			}
			c = r.Range(max(1, c/2), c)
			p.Chunks = append(p.Chunks, c)
			tot += c
		}
	case 3:
		class = "straddle"
		cuts := append([]int{}, interesting...)
		for i := 0; i < 3; i++ {
			cuts = append(cuts, r.Range(0, n))
		}
		for k := 16384; k < n; k += 16384 {
			cuts = append(cuts, k+r.Range(-2, 2))
		}
		sort.Ints(cuts)
		prev := 0
		for _, c := range cuts {
			if c > prev && c <= n {
				p.Chunks = append(p.Chunks, c-prev)
				prev = c
			}
		}
		p.Rest = kernel.Pick(r, []int{0, 1, 512, 4096})
	default:
		class = "mixed"
		for tot := 0; tot < n && len(p.Chunks) < 2000; {
			c := kernel.Pick(r, fixedSizes)
			p.Chunks = append(p.Chunks, c)
			tot += c
		}
	}
	if r.Bool(0.15) && len(p.Chunks) > 0 {
		// sprinkle (0, nil) reads
		k := r.Range(1, 3)
		for i := 0; i < k; i++ {
			j := r.Intn(len(p.Chunks) + 1)
			p.Chunks = append(p.Chunks[:j], append([]int{0}, p.Chunks[j:]...)...)
		}
		class += "+zero-reads"
	}
	return p, class
}
