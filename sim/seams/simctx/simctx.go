// Package simctx is the simulator's context.Context: gojq polls Done() once
// per VM instruction whenever the context is not context.Background(), which
// makes Done() both the step counter (simulated time), the cancellation point
// and the yield point of the scheduler.
package simctx

import (
	"context"
	"errors"
	"os"
	"runtime"
	"runtime/debug"
	"runtime/metrics"
	"sync/atomic"
	"time"
)

// Memory pressure: a jq program can double a value at every step, so a step cap alone does not
// bound memory. A monitor goroutine samples the heap size (runtime/metrics, no stop-the-world);
// while it is above the limit every simulated context closes its channel at its next poll, like
// the step cap does. Where the truncation lands depends on timing, so a case during which it
// happened is never judged (MemEvents is compared before and after the case).
var (
	memPressure atomic.Bool
	MemEvents   atomic.Int64
	monitorOn   atomic.Bool
)

var memLimit uint64

// Relieve is called between cases: if the previous case left the process under memory pressure,
// collect its garbage now so that the next case starts clean.
func Relieve() {
	if !memPressure.Load() {
		return
	}
	sample := []metrics.Sample{{Name: "/memory/classes/heap/objects:bytes"}}
	for i := 0; i < 3; i++ {
		runtime.GC()
		metrics.Read(sample)
		if sample[0].Value.Uint64() < memLimit/2 {
			memPressure.Store(false)
			return
		}
	}
}

// memBase is the live heap the harness itself holds (work lists, caches); pressure is measured above it.
var memBase atomic.Uint64

// Rebase measures the live heap after a collection and takes it as the harness's own share. Called
// by the runner between units, when no query is running, after the work lists have been built.
func Rebase() {
	runtime.GC()
	sample := []metrics.Sample{{Name: "/memory/classes/heap/objects:bytes"}}
	metrics.Read(sample)
	memBase.Store(sample[0].Value.Uint64())
}

func StartMemoryMonitor(limitBytes uint64) {
	memLimit = limitBytes
	if !monitorOn.CompareAndSwap(false, true) {
		return
	}
	go func() {
		sample := []metrics.Sample{{Name: "/memory/classes/heap/objects:bytes"}}
		for {
			time.Sleep(5 * time.Millisecond)
			metrics.Read(sample)
			heap := sample[0].Value.Uint64()
			if b := memBase.Load(); heap > b {
				heap -= b
			} else {
				heap = 0
			}
			if heap > 24*limitBytes {
				// a single native instruction is blowing the heap up between polls: nothing cooperative
				// can stop it, and the sandbox has no memory limit of its own
				println("verifsim: heap", heap>>20, "MB, far beyond the memory-pressure limit; exiting (infrastructure, exit 3)")
				buf := make([]byte, 1<<16)
				os.Stderr.Write(buf[:runtime.Stack(buf, true)]) // who is allocating
				os.Exit(3)
			}
			switch {
			case heap > limitBytes:
				if !memPressure.Swap(true) {
					go debug.FreeOSMemory()
				}
			case heap < limitBytes/2:
				memPressure.Store(false)
			default:
				if memPressure.Load() {
					debug.FreeOSMemory() // the big values are garbage once the run was cut
				}
			}
		}
	}()
}

type Ctx struct {
	inner       context.Context
	cancelInner context.CancelCauseFunc
	ch          chan struct{}
	Polls       int  // number of Done() calls so far = VM steps taken
	CloseAt     int  // close the channel during this poll (0 = never)
	Budget      int  // close the channel when Polls exceeds this (0 = none): step cap
	Closed      bool // the channel has been closed
	ByFault     bool // closed by CloseAt or Cancel (a simulated cancellation), not by the budget
	ByMem       bool // closed because of memory pressure
	// ErrValue is what Err() reports once closed (default context.Canceled); the interpreter must
	// return exactly what ctx.Err() says, not a constant of its own.
	ErrValue error
	// ClosedAtPoll is the poll count at the moment of closing.
	ClosedAtPoll int
	// OnPoll, if set, runs inside every Done() call before the decision
	// (the gate parks the goroutine here).
	OnPoll func(c *Ctx)
	// PollsAfterClose counts Done() calls after the channel was closed.
	PollsAfterClose int
	// MaxAfterClose > 0: when an interpreter keeps polling a closed channel
	// more than this many times, Overrun is called (it aborts the run by
	// panicking with a harness sentinel) so that a run that ignores
	// cancellation is cut instead of being waited for.
	MaxAfterClose int
	Overrun       func()
}

var _ context.Context = (*Ctx)(nil)

// ErrCause is the cause recorded in the standard-library context every simulated context carries
// inside (reachable through Value, as for any child of a context.WithCancelCause context):
// context.Cause(ctx) reports it, ctx.Err() does not. The interpreter must return ctx.Err().
var ErrCause = errors.New("simulated cancellation cause (must not be returned: Next returns ctx.Err())")

func New() *Ctx {
	c := &Ctx{ch: make(chan struct{})}
	c.inner, c.cancelInner = context.WithCancelCause(context.Background())
	return c
}

func (c *Ctx) Deadline() (time.Time, bool) { return time.Time{}, false }

func (c *Ctx) Done() <-chan struct{} {
	c.Polls++
	if c.Closed {
		c.PollsAfterClose++
		if c.MaxAfterClose > 0 && c.PollsAfterClose > c.MaxAfterClose && c.Overrun != nil {
			c.Overrun()
		}
		return c.ch
	}
	if c.OnPoll != nil {
		c.OnPoll(c)
	}
	if !c.Closed && memPressure.Load() {
		MemEvents.Add(1)
		c.ByMem = true
		c.close(false)
	}
	if !c.Closed {
		if c.CloseAt > 0 && c.Polls >= c.CloseAt {
			c.close(true)
		} else if c.Budget > 0 && c.Polls > c.Budget {
			c.close(false)
		}
	}
	return c.ch
}

func (c *Ctx) close(fault bool) {
	c.Closed, c.ByFault, c.ClosedAtPoll = true, fault, c.Polls
	if c.cancelInner != nil {
		c.cancelInner(ErrCause)
	}
	close(c.ch)
}

// Cancel closes the channel from outside a poll (an asynchronous event such
// as a callback running inside a VM instruction).
func (c *Ctx) Cancel() {
	if !c.Closed {
		c.close(true)
	}
}

func (c *Ctx) Err() error {
	if c.Closed {
		if c.ErrValue != nil {
			return c.ErrValue
		}
		return context.Canceled
	}
	return nil
}

func (c *Ctx) Value(key any) any {
	if c.inner != nil {
		return c.inner.Value(key)
	}
	return nil
}
