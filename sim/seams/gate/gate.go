// Package gate is the seeded scheduler for caller goroutines. Every worker
// runs real gojq code on its own goroutine, but it may only execute while it
// holds a grant: a number of VM steps (polls of the simulated context). At
// each step the worker decrements its grant and parks when it reaches zero.
// The scheduler releases a phase (a set of workers with a quantum each), waits
// until all of them have parked or finished, and only then decides the next
// phase. Which worker runs which window is therefore a function of the
// decision list alone. A phase with one worker is fully serial; a phase with
// several releases them through one barrier so that their windows carry no
// happens-before edge between each other, which is what the race detector
// needs to see same-instant conflicts.
package gate

import (
	"fmt"
	"runtime"
	"strings"
	"time"
)

// Grant releases worker W for Q steps (Q < 0: until it finishes).
type Grant struct {
	W int `json:"w"`
	Q int `json:"q"`
}

type Phase []Grant

type grantMsg struct {
	q       int
	barrier chan struct{}
}

type evKind int

const (
	evParked evKind = iota
	evFinished
)

type event struct {
	w    int
	kind evKind
}

type Worker struct {
	ID      int
	left    int
	grant   chan grantMsg
	s       *Sched
	Steps   int // steps taken so far (simulated time of this worker)
	started bool
}

// Step is the yield point: call it wherever the worker may be descheduled.
func (w *Worker) Step() {
	for w.left == 0 {
		w.s.events <- event{w.ID, evParked}
		g := <-w.grant
		<-g.barrier
		w.left = g.q
	}
	if w.left > 0 {
		w.left--
	}
	w.Steps++
}

type Sched struct {
	workers  []*Worker
	events   chan event
	alive    []bool
	blocked  []bool
	Phases   []Phase // phases actually released (the recorded decision list)
	StallFor time.Duration
	// Deadlock is set when every unfinished worker is blocked in a sync primitive.
	Deadlock string
	Stalled  string
	Slow     bool   // a released worker ran longer than StallFor without yielding
	OnSlow   func() // called each time that is noticed
}

func New(n int) *Sched {
	s := &Sched{events: make(chan event, n), StallFor: 60 * time.Second}
	for i := 0; i < n; i++ {
		s.workers = append(s.workers, &Worker{ID: i, grant: make(chan grantMsg, 1), s: s})
		s.alive = append(s.alive, true)
		s.blocked = append(s.blocked, false)
	}
	return s
}

func (s *Sched) Worker(i int) *Worker { return s.workers[i] }

// Go starts body on worker i's goroutine; the body must call w.Step() first.
func (s *Sched) Go(i int, body func(w *Worker)) {
	w := s.workers[i]
	go entries[i%len(entries)](func() {
		w.Step() // park until first released
		body(w)
		s.events <- event{w.ID, evFinished}
	})
}

// WaitParked waits until all n workers have reached their first yield.
func (s *Sched) WaitParked() bool {
	for range s.workers {
		if !s.wait(1) {
			return false
		}
	}
	return true
}

func (s *Sched) wait(n int) bool {
	for n > 0 {
		select {
		case ev := <-s.events:
			if ev.kind == evFinished {
				s.alive[ev.w] = false
			}
			if s.blocked[ev.w] {
				s.blocked[ev.w] = false
				continue // a late event of a worker already written off for this phase
			}
			n--
		case <-time.After(s.StallFor):
			// someone released neither parked nor finished: blocked in a sync primitive?
			dump := allStacks()
			nb := 0
			for i, w := range s.workers {
				if s.alive[i] && !s.blocked[i] && w.left != 0 && blockedInSync(dump, i) {
					s.blocked[i] = true
					nb++
				}
			}
			if nb == 0 {
				// still running (a native working on a huge value): slow, not stuck. Keep waiting; the
				// case is marked slow and not judged, and the process watchdog is the backstop.
				s.Slow = true
				if s.OnSlow != nil {
					s.OnSlow()
				}
				continue
			}
			n -= nb
		}
	}
	return true
}

// Alive lists unfinished, unblocked workers.
func (s *Sched) Alive() []int {
	var a []int
	for i, ok := range s.alive {
		if ok && !s.blocked[i] {
			a = append(a, i)
		}
	}
	return a
}

func (s *Sched) AllBlocked() bool {
	any := false
	for i, ok := range s.alive {
		if ok {
			if !s.blocked[i] {
				return false
			}
			any = true
		}
	}
	return any
}

// Release runs one phase and returns when all its workers are quiescent again.
// Grants for finished or blocked workers are dropped.
func (s *Sched) Release(p Phase) bool {
	var eff Phase
	seen := map[int]bool{}
	for _, g := range p {
		if g.W >= 0 && g.W < len(s.workers) && s.alive[g.W] && !s.blocked[g.W] && !seen[g.W] && g.Q != 0 {
			eff = append(eff, g)
			seen[g.W] = true
		}
	}
	if len(eff) == 0 {
		return true
	}
	s.Phases = append(s.Phases, eff)
	barrier := make(chan struct{})
	for _, g := range eff {
		s.workers[g.W].grant <- grantMsg{q: g.Q, barrier: barrier}
	}
	close(barrier)
	return s.wait(len(eff))
}

func allStacks() string {
	buf := make([]byte, 1<<20)
	n := runtime.Stack(buf, true)
	return string(buf[:n])
}

// blockedInSync reports whether the goroutine running worker i sits in a
// sync primitive (mutex, rwmutex, cond, waitgroup) rather than in the gate.
func blockedInSync(dump string, i int) bool {
	for _, g := range strings.Split(dump, "\n\n") {
		if !strings.Contains(g, fmt.Sprintf("gate.workerEntry%d(", i%len(entries))) {
			continue
		}
		head := g
		if k := strings.Index(g, "\n"); k >= 0 {
			head = g[:k]
		}
		return strings.Contains(head, "sync.Mutex.Lock") || strings.Contains(head, "sync.RWMutex") || strings.Contains(head, "semacquire") || strings.Contains(head, "sync.Cond.Wait") || strings.Contains(head, "sync.WaitGroup")
	}
	return false
}

// One distinct, non-inlined entry frame per worker so that a goroutine dump
// can be attributed to a worker.
var entries = []func(func()){workerEntry0, workerEntry1, workerEntry2, workerEntry3, workerEntry4, workerEntry5, workerEntry6, workerEntry7,
	workerEntry8, workerEntry9, workerEntry10, workerEntry11, workerEntry12, workerEntry13, workerEntry14, workerEntry15}

//go:noinline
func workerEntry0(f func()) { f() }

//go:noinline
func workerEntry1(f func()) { f() }

//go:noinline
func workerEntry2(f func()) { f() }

//go:noinline
func workerEntry3(f func()) { f() }

//go:noinline
func workerEntry4(f func()) { f() }

//go:noinline
func workerEntry5(f func()) { f() }

//go:noinline
func workerEntry6(f func()) { f() }

//go:noinline
func workerEntry7(f func()) { f() }

//go:noinline
func workerEntry8(f func()) { f() }

//go:noinline
func workerEntry9(f func()) { f() }

//go:noinline
func workerEntry10(f func()) { f() }

//go:noinline
func workerEntry11(f func()) { f() }

//go:noinline
func workerEntry12(f func()) { f() }

//go:noinline
func workerEntry13(f func()) { f() }

//go:noinline
func workerEntry14(f func()) { f() }

//go:noinline
func workerEntry15(f func()) { f() }
