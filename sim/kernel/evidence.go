package kernel

import (
	"encoding/json"
	"os"
	"path/filepath"
)

// Evidence follows /root/.vp/EVIDENCE.schema.json.
type Evidence struct {
	PropertyID  string         `json:"property_id"`
	Tier        string         `json:"tier"`
	Seed        int64          `json:"seed"`
	Level       string         `json:"level"`
	Coverage    map[string]any `json:"coverage"`
	Assumptions []string       `json:"assumptions"`
	WallS       float64        `json:"wall_s"`
	Violations  int            `json:"violations"`
}

func (e *Evidence) Write(path string) error {
	if err := os.MkdirAll(filepath.Dir(path), 0o755); err != nil {
		return err
	}
	bs, err := json.MarshalIndent(e, "", " ")
	if err != nil {
		return err
	}
	tmp := path + ".tmp"
	if err := os.WriteFile(tmp, append(bs, '\n'), 0o644); err != nil {
		return err
	}
	return os.Rename(tmp, path)
}
