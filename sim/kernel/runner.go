package kernel

import (
	"verif/sim/seams/simctx"

	"bytes"
	"encoding/json"
	"flag"
	"fmt"
	"os"
	"os/exec"
	"path/filepath"
	"runtime"
	"runtime/debug"
	"sort"
	"strconv"
	"strings"
	"sync"
	"time"
)

// Exit codes of a check.
const (
	ExitHeld      = 0
	ExitViolation = 1
	ExitInfra     = 2
)

// ChildHook lets a property tune how its children are started and how their
// death is interpreted (C06 runs under the race detector).
type ChildHook interface {
	ChildEnv(tier string) []string
	// Binary returns the path of the binary children must run ("" = self).
	Binary(verifDir string) string
	// PostChild may turn a child's abnormal exit into a violation.
	PostChild(exit int, stderr string, mark *Case, scratch string) *Violation
}

// SafeExec runs p.Exec under recover.
func SafeExec(p Property, c Case) (v *Violation) {
	defer func() {
		if r := recover(); r != nil {
			v = &Violation{Property: p.ID(), Class: "harness-panic", Case: c,
				Detail: fmt.Sprintf("panic outside gojq while executing the case: %v\n%s", r, debug.Stack())}
		}
	}()
	return p.Exec(c)
}

// Minimise shrinks v.Case while Exec keeps yielding the same class.
func Minimise(p Property, v Violation, budget time.Duration) Violation {
	deadline := time.Now().Add(budget)
	cur := v
	orig := v.Case
	changed := false
	for time.Now().Before(deadline) {
		progress := false
		for _, cand := range p.Shrink(cur.Case) {
			if time.Now().After(deadline) {
				break
			}
			if string(cand.Data) == string(cur.Case.Data) {
				continue
			}
			w := SafeExec(p, cand)
			if w != nil && w.Class == cur.Class {
				w.Seed, w.Unit, w.Tier = cur.Seed, cur.Unit, cur.Tier
				cur = *w
				progress, changed = true, true
				break
			}
		}
		if !progress {
			break
		}
	}
	cur.Minimised = true
	if changed {
		cur.Original = &orig
	}
	return cur
}

func seedFromEnv() uint64 {
	s := os.Getenv("VERIF_SEED")
	if s == "" {
		return 1
	}
	n, err := strconv.ParseInt(s, 10, 64)
	if err != nil {
		u, err2 := strconv.ParseUint(s, 10, 64)
		if err2 != nil {
			fmt.Fprintf(os.Stderr, "bad VERIF_SEED %q, using 1\n", s)
			return 1
		}
		return u
	}
	return uint64(n)
}

// Main is the entry point of cmd/verifsim.
func Main(props map[string]Property) {
	if len(os.Args) < 2 {
		fmt.Fprintln(os.Stderr, "usage: verifsim run|child|replay|exec ...")
		os.Exit(ExitInfra)
	}
	switch os.Args[1] {
	case "run":
		os.Exit(cmdRun(props, os.Args[2:]))
	case "child":
		os.Exit(cmdChild(props, os.Args[2:]))
	case "replay":
		os.Exit(cmdReplay(props, os.Args[2:]))
	case "exec":
		os.Exit(cmdExec(props, os.Args[2:]))
	case "log":
		os.Exit(cmdLog(props, os.Args[2:]))
	case "minimise":
		os.Exit(cmdMinimise(props, os.Args[2:]))
	case "units":
		if len(os.Args) >= 4 && props[os.Args[2]] != nil {
			fmt.Println(props[os.Args[2]].Units(os.Args[3], seedFromEnv()))
			os.Exit(0)
		}
		os.Exit(ExitInfra)
	default:
		fmt.Fprintln(os.Stderr, "unknown subcommand", os.Args[1])
		os.Exit(ExitInfra)
	}
}

// ---- child ------------------------------------------------------------------

func cmdChild(props map[string]Property, args []string) int {
	fs := flag.NewFlagSet("child", flag.ExitOnError)
	prop := fs.String("prop", "", "")
	tier := fs.String("tier", "quick", "")
	seed := fs.Uint64("seed", 1, "")
	shard := fs.Int("shard", 0, "")
	of := fs.Int("of", 1, "")
	out := fs.String("out", "", "")
	mark := fs.String("mark", "", "")
	only := fs.Int("only", -1, "run a single unit")
	stall := fs.Int("stall", 180, "seconds without progress before the watchdog fires")
	skip := fs.String("skip", "", "comma separated units to skip (they stalled or killed an earlier child)")
	from := fs.Int("from", 0, "first unit to consider")
	memMB := fs.Int("mem", 6000, "heap megabytes before the watchdog fires")
	fs.Parse(args)
	skipSet := map[int]bool{}
	for _, x := range strings.Split(*skip, ",") {
		if n, err := strconv.Atoi(x); err == nil {
			skipSet[n] = true
		}
	}
	p := props[*prop]
	if p == nil {
		fmt.Fprintln(os.Stderr, "unknown property", *prop)
		return ExitInfra
	}
	simctx.StartMemoryMonitor(256 << 20)
	col := NewCollector()
	if *mark != "" {
		f, err := os.Create(*mark)
		if err != nil {
			fmt.Fprintln(os.Stderr, err)
			return ExitInfra
		}
		col.markFile = f
	}
	col.Touch()
	if *out != "" {
		col.violFile, _ = os.Create(*out + ".viol")
		col.doneFile, _ = os.Create(*out + ".done")
	}
	var mu sync.Mutex
	done := false
	go func() { // watchdog: wall clock is used only to detect a stuck harness, never as an oracle
		var ms runtime.MemStats
		for i := 0; ; i++ {
			time.Sleep(250 * time.Millisecond)
			mu.Lock()
			d := done
			mu.Unlock()
			if d {
				return
			}
			since, wu, wm := col.watchdogView()
			if since > time.Duration(*stall)*time.Second {
				fmt.Fprintf(os.Stderr, "WATCHDOG: no progress for %ds in unit %d; last case: %s\n", *stall, wu, wm)
				os.Exit(3)
			}
			runtime.ReadMemStats(&ms)
			if ms.HeapAlloc > uint64(*memMB)<<20 {
				fmt.Fprintf(os.Stderr, "WATCHDOG: heap %d MB in unit %d; last case: %s\n", ms.HeapAlloc>>20, wu, wm)
				os.Exit(3)
			}
		}
	}()
	env := &Env{Tier: *tier, Seed: *seed, Out: col}
	col.seed, col.tier = *seed, *tier
	col.Known, _ = LoadKnown(filepath.Join(verifDir(), "known_findings.json"))
	lastFlush := time.Now()
	segs := plan(p, *tier, *seed)
	n := planUnits(segs)
	var curSeg segment
	for u := 0; u < n; u++ {
		if *only >= 0 {
			if u != *only {
				continue
			}
		} else if u%*of != *shard || u < *from || skipSet[u] {
			continue
		}
		col.Unit = u
		col.Touch()
		func() {
			defer func() {
				if r := recover(); r != nil {
					var c Case
					json.Unmarshal(bytes.TrimSpace(col.lastMark), &c)
					col.Violate(&Violation{Property: p.ID(), Class: "harness-panic", Case: c, Seed: *seed,
						Detail: fmt.Sprintf("panic escaped the unit: %v\n%s", r, debug.Stack())})
				}
			}()
			seg, lu := locate(segs, u)
			if seg != curSeg {
				// entering a segment: let the property build its work list, then take the heap the
				// harness itself holds as the floor above which memory pressure is measured
				curSeg = seg
				p.Units(seg.Tier, seg.Seed)
				simctx.Rebase()
			}
			env.Tier, env.Seed = seg.Tier, seg.Seed
			p.RunUnit(env, lu)
		}()
		col.Stats["units"]++
		if col.doneFile != nil {
			fmt.Fprintf(col.doneFile, "%d\n", u)
		}
		if time.Since(lastFlush) > 5*time.Second && *out != "" {
			lastFlush = time.Now()
			col.finish()
			if bs, err := json.Marshal(col); err == nil {
				os.WriteFile(*out+".part", bs, 0o644)
				os.Rename(*out+".part", *out)
			}
		}
	}
	mu.Lock()
	done = true
	mu.Unlock()
	for i := range col.Violations {
		col.Violations[i].Seed = *seed
		col.Violations[i].Tier = *tier
	}
	col.finish()
	bs, err := json.Marshal(col)
	if err != nil {
		fmt.Fprintln(os.Stderr, err)
		return ExitInfra
	}
	if err := os.WriteFile(*out, bs, 0o644); err != nil {
		fmt.Fprintln(os.Stderr, err)
		return ExitInfra
	}
	return 0
}

// ---- seed sweep ---------------------------------------------------------------
//
// The thorough tier is the thorough workload under VERIF_SEED followed by the
// quick workload under SweepSeeds further PRNG values derived from it: several of
// the defects found in gojq showed only under some values of the quick tier.

const SweepSeeds = 8

type segment struct {
	Tier  string `json:"tier"`
	Seed  uint64 `json:"seed"`
	Units int    `json:"units"`
}

func plan(p Property, tier string, seed uint64) []segment {
	segs := []segment{{tier, seed, p.Units(tier, seed)}}
	if tier == "thorough" && os.Getenv("VERIF_NO_SWEEP") == "" {
		for j := 1; j <= SweepSeeds; j++ {
			s := Mix(seed, 0x5eed, uint64(j))
			segs = append(segs, segment{"quick", s, p.Units("quick", s)})
		}
	}
	return segs
}

func planUnits(segs []segment) int {
	n := 0
	for _, s := range segs {
		n += s.Units
	}
	return n
}

// locate maps a global unit number to its segment and the unit number inside it.
func locate(segs []segment, u int) (segment, int) {
	for _, s := range segs {
		if u < s.Units {
			return s, u
		}
		u -= s.Units
	}
	return segs[len(segs)-1], u
}

// ---- exec: one case in a fresh process (fatal-error confirmation) -----------

func cmdExec(props map[string]Property, args []string) int {
	if len(args) < 1 {
		return ExitInfra
	}
	bs, err := os.ReadFile(args[0])
	if err != nil {
		fmt.Fprintln(os.Stderr, err)
		return ExitInfra
	}
	var c Case
	if err := json.Unmarshal(bytes.TrimSpace(bs), &c); err != nil {
		fmt.Fprintln(os.Stderr, "exec: bad case:", err)
		return ExitInfra
	}
	p := props[c.Property]
	if p == nil {
		return ExitInfra
	}
	simctx.StartMemoryMonitor(256 << 20)
	v := SafeExec(p, c)
	if v != nil {
		out, _ := json.Marshal(v)
		fmt.Printf("EXEC-VIOLATION %s\n", out)
		return ExitViolation
	}
	return 0
}

// ---- minimise: confirm and shrink one violation in a process of its own -------------

type minimiseResult struct {
	Reproduced bool       `json:"reproduced"`
	Got        string     `json:"got"`
	Violation  *Violation `json:"violation"`
}

func cmdMinimise(props map[string]Property, args []string) int {
	fs := flag.NewFlagSet("minimise", flag.ExitOnError)
	in := fs.String("in", "", "")
	out := fs.String("out", "", "")
	budget := fs.Int("budget", 20, "seconds")
	fs.Parse(args)
	v, err := ReadReplay(*in)
	if err != nil {
		fmt.Fprintln(os.Stderr, err)
		return ExitInfra
	}
	p := props[v.Property]
	if p == nil {
		return ExitInfra
	}
	simctx.StartMemoryMonitor(256 << 20)
	res := minimiseResult{Got: "held"}
	write := func() {
		bs, _ := json.Marshal(res)
		os.WriteFile(*out, bs, 0o644)
	}
	w := SafeExec(p, v.Case)
	if w != nil {
		res.Got = w.Class
	}
	if w == nil || w.Class != v.Class {
		write()
		return 0
	}
	res.Reproduced = true
	res.Violation = v
	write() // confirmed: if minimisation kills this process the confirmed case survives
	m := Minimise(p, *v, time.Duration(*budget)*time.Second)
	res.Violation = &m
	write()
	return 0
}

// minimiseInChild confirms and shrinks a violation in a process of its own, so that a case
// that kills the process (stack exhaustion on a cyclic value, a runtime fatal error) cannot
// take the orchestrator with it.
func minimiseInChild(p Property, v Violation, budget time.Duration, scratch string, n int) (res minimiseResult, crashed bool) {
	inF := filepath.Join(scratch, fmt.Sprintf("min-%d-in.json", n))
	outF := filepath.Join(scratch, fmt.Sprintf("min-%d-out.json", n))
	bs, _ := json.Marshal(v)
	os.WriteFile(inF, bs, 0o644)
	self, _ := os.Executable()
	cmd := exec.Command(self, "minimise", "-in", inF, "-out", outF, "-budget", strconv.Itoa(int(budget.Seconds())))
	cmd.Env = append(os.Environ(), "GOMAXPROCS=2", "VERIF_SCRATCH="+scratch)
	if h, ok := p.(ChildHook); ok {
		if b := h.Binary(verifDir()); b != "" {
			cmd.Path = b
			cmd.Args[0] = b
		}
		for _, e := range h.ChildEnv("minimise") {
			cmd.Env = append(cmd.Env, strings.ReplaceAll(e, "$SCRATCH", scratch))
		}
	}
	var stderr bytes.Buffer
	cmd.Stderr, cmd.Stdout = &stderr, &stderr
	err := cmd.Run()
	if bs, e := os.ReadFile(outF); e == nil {
		json.Unmarshal(bs, &res)
	}
	return res, err != nil
}

// ---- replay -------------------------------------------------------------------

func cmdReplay(props map[string]Property, args []string) int {
	if len(args) < 1 {
		fmt.Fprintln(os.Stderr, "usage: verifsim replay <file>")
		return ExitInfra
	}
	v, err := ReadReplay(args[0])
	if err != nil {
		fmt.Fprintln(os.Stderr, err)
		return ExitInfra
	}
	p := props[v.Property]
	if p == nil {
		fmt.Fprintln(os.Stderr, "unknown property", v.Property)
		return ExitInfra
	}
	simctx.StartMemoryMonitor(256 << 20)
	var w *Violation
	if strings.HasPrefix(v.Class, "fatal") || strings.HasPrefix(v.Class, "race") {
		w = execInChild(p, v.Case, verifDir())
	} else {
		w = SafeExec(p, v.Case)
	}
	if w == nil {
		fmt.Printf("replay diverged: recorded class %q, the case now holds\n", v.Class)
		return ExitInfra
	}
	if w.Class != v.Class {
		fmt.Printf("replay diverged: recorded class %q, now %q\n%s\n", v.Class, w.Class, w.Detail)
		return ExitInfra
	}
	fmt.Printf("reproduced: class=%s\n%s\n", w.Class, w.Detail)
	fmt.Printf("VIOLATION property=%s replay=%s\n", v.Property, args[0])
	return ExitViolation
}

func verifDir() string {
	if d := os.Getenv("VERIF_DIR"); d != "" {
		return d
	}
	return "/verif"
}

// ExecFresh runs one case in a fresh process of the property's child binary (cold process-wide state).
func ExecFresh(p Property, c Case) *Violation { return execInChild(p, c, verifDir()) }

// execInChild runs one case in a fresh process so that runtime fatal errors
// and race reports can be observed.
func execInChild(p Property, c Case, vdir string) *Violation {
	scratch, err := os.MkdirTemp(filepath.Join(vdir, ".build"), "exec-")
	if err != nil {
		return nil
	}
	defer os.RemoveAll(scratch)
	cf := filepath.Join(scratch, "case.json")
	bs, _ := json.Marshal(c)
	os.WriteFile(cf, bs, 0o644)
	self, _ := os.Executable()
	var envs []string
	if h, ok := p.(ChildHook); ok {
		if b := h.Binary(vdir); b != "" {
			self = b
		}
		envs = h.ChildEnv("replay")
		for i, e := range envs {
			envs[i] = strings.ReplaceAll(e, "$SCRATCH", scratch)
		}
	}
	cmd := exec.Command(self, "exec", cf)
	cmd.Env = append(os.Environ(), envs...)
	var stdout, stderr bytes.Buffer
	cmd.Stdout, cmd.Stderr = &stdout, &stderr
	err = cmd.Run()
	exit := 0
	if err != nil {
		if ee, ok := err.(*exec.ExitError); ok {
			exit = ee.ExitCode()
		} else {
			return nil
		}
	}
	for _, line := range strings.Split(stdout.String(), "\n") {
		if rest, ok := strings.CutPrefix(line, "EXEC-VIOLATION "); ok {
			var v Violation
			if json.Unmarshal([]byte(rest), &v) == nil {
				return &v
			}
		}
	}
	if exit == 0 {
		return nil
	}
	if h, ok := p.(ChildHook); ok {
		if v := h.PostChild(exit, stderr.String(), &c, scratch); v != nil {
			return v
		}
	}
	return fatalViolation(p, exit, stderr.String(), &c)
}

func fatalViolation(p Property, exit int, stderr string, c *Case) *Violation {
	cls := ""
	for _, line := range strings.Split(stderr, "\n") {
		if strings.HasPrefix(line, "fatal error:") || strings.HasPrefix(line, "panic:") || strings.HasPrefix(line, "runtime: goroutine stack exceeds") {
			cls = line
			break
		}
	}
	if cls == "" || c == nil {
		return nil
	}
	if len(cls) > 80 {
		cls = cls[:80]
	}
	return &Violation{Property: p.ID(), Class: "fatal:" + cls, Case: *c,
		Detail: fmt.Sprintf("process died (exit %d) while executing the case:\n%s", exit, tail(stderr, 3000))}
}

func tail(s string, n int) string {
	if len(s) > n {
		return "..." + s[len(s)-n:]
	}
	return s
}

// ---- run: the orchestrator ------------------------------------------------------

type childResult struct {
	lastDone int
	hungUnit int
	shard    int
	exit     int
	stderr   string
	col      *Collector
	mark     *Case
	err      error
}

func cmdRun(props map[string]Property, args []string) int {
	fs := flag.NewFlagSet("run", flag.ExitOnError)
	prop := fs.String("prop", "", "")
	tier := fs.String("tier", "quick", "")
	shards := fs.Int("shards", 0, "")
	vdir := fs.String("verif", verifDir(), "")
	noEvidence := fs.Bool("no-evidence", false, "")
	shrinkS := fs.Int("shrink", 0, "seconds per violation for minimisation (0 = tier default)")
	fs.Parse(args)
	p := props[*prop]
	if p == nil {
		fmt.Fprintln(os.Stderr, "unknown property", *prop)
		return ExitInfra
	}
	if t := os.Getenv("VERIF_TIER"); t != "" && false {
		*tier = t
	}
	seed := seedFromEnv()
	start := time.Now()
	fmt.Printf("verifsim: property=%s tier=%s VERIF_SEED=%d\n", p.ID(), *tier, seed)
	known, err := LoadKnown(filepath.Join(*vdir, "known_findings.json"))
	if err != nil {
		fmt.Fprintln(os.Stderr, "known_findings.json:", err)
		return ExitInfra
	}
	segs := plan(p, *tier, seed)
	units := planUnits(segs)
	n := *shards
	if n <= 0 {
		n = runtime.NumCPU()
		if n > 16 {
			n = 16
		}
	}
	if n > units {
		n = units
	}
	if n < 1 {
		n = 1
	}
	os.MkdirAll(filepath.Join(*vdir, ".build"), 0o755)
	scratch, err := os.MkdirTemp(filepath.Join(*vdir, ".build"), "run-")
	if err != nil {
		fmt.Fprintln(os.Stderr, err)
		return ExitInfra
	}
	defer os.RemoveAll(scratch)
	self, _ := os.Executable()
	hook, _ := p.(ChildHook)
	if hook != nil {
		if b := hook.Binary(*vdir); b != "" {
			self = b
		}
	}
	stall := 180
	if st, ok := p.(interface{ StallSeconds(tier string) int }); ok {
		stall = st.StallSeconds(*tier)
	}
	perShard := make([][]childResult, n)
	var wg sync.WaitGroup
	for i := 0; i < n; i++ {
		wg.Add(1)
		go func(i int) {
			defer wg.Done()
			var skip []int
			from := 0
			for attempt := 0; attempt < 25; attempt++ {
				r := runChild(p, hook, self, scratch, *tier, seed, i, n, from, skip, stall, attempt)
				perShard[i] = append(perShard[i], r)
				if r.exit == 0 && r.err == nil {
					break
				}
				// the child died or stalled: continue after the unit it was executing
				hung := from
				if r.lastDone >= 0 {
					hung = r.lastDone + 1
				}
				skipped := map[int]bool{}
				for _, u := range skip {
					skipped[u] = true
				}
				for hung%n != i || skipped[hung] {
					hung++
				}
				r.hungUnit = hung
				perShard[i][len(perShard[i])-1] = r
				skip = append(skip, hung)
				from = hung + 1
				if from >= units {
					break
				}
			}
		}(i)
	}
	wg.Wait()
	var results []childResult
	for _, rs := range perShard {
		results = append(results, rs...)
	}

	total := NewCollector()
	infra := []string{}
	var fatal []*Violation
	for i := range results {
		r := &results[i]
		if r.col != nil {
			total.Merge(r.col)
		}
		if r.exit == 0 && r.err == nil {
			continue
		}
		// abnormal child exit: try to attribute
		var v *Violation
		if hook != nil {
			v = hook.PostChild(r.exit, r.stderr, r.mark, filepath.Join(scratch, fmt.Sprintf("c%d", r.shard)))
		}
		if v == nil && r.exit != 3 {
			v = fatalViolation(p, r.exit, r.stderr, r.mark)
		}
		if v != nil {
			// confirm in a fresh process
			w := execInChild(p, v.Case, *vdir)
			if w != nil {
				w.Seed, w.Tier = seed, *tier
				fatal = append(fatal, w)
				// the shard's remaining units were lost; say so
				continue
			}
			infra = append(infra, fmt.Sprintf("shard %d died (exit %d) in unit %d and the suspected case did not reproduce alone: %s\n%s", r.shard, r.exit, r.hungUnit, v.Class, tail(r.stderr, 1500)))
			continue
		}
		infra = append(infra, fmt.Sprintf("shard %d exited with %d in unit %d (unit skipped): %v\n%s", r.shard, r.exit, r.hungUnit, r.err, tail(r.stderr, 2000)))
	}
	for _, v := range fatal {
		total.Violations = append(total.Violations, *v)
	}

	// minimise, classify against known findings, write replay files
	budget := 20 * time.Second
	if *tier == "thorough" {
		budget = 120 * time.Second
	}
	if *shrinkS > 0 {
		budget = time.Duration(*shrinkS) * time.Second
	}
	sort.Slice(total.Violations, func(i, j int) bool { return total.Violations[i].Key() < total.Violations[j].Key() })
	var unknown, knownHits, nMin int
	printedKnown := map[string]bool{}
	perClass := map[string]int{}
	seenMin := map[string]bool{}
	for _, v := range total.Violations {
		if kf := known.Match(&v); kf != nil {
			knownHits++
			if !printedKnown[kf.ID] {
				printedKnown[kf.ID] = true
				fmt.Printf("KNOWN-FINDING: property=%s %s [%s]\n", p.ID(), kf.What, kf.ID)
			}
			continue
		}
		if perClass[v.Class] >= 3 {
			unknown++
			continue
		}
		// confirm from the Case alone and minimise, in a process of its own: a violation that does not
		// reproduce is trouble with the harness (or flaky code), never reported as VIOLATION
		m := v
		inChild := strings.HasPrefix(v.Class, "fatal") || strings.HasPrefix(v.Class, "race")
		switch {
		case v.Class == "harness-panic":
		case inChild:
			var w *Violation
			for try := 0; try < 3 && (w == nil || w.Class != v.Class); try++ {
				w = execInChild(p, v.Case, *vdir)
			}
			if w == nil || w.Class != v.Class {
				got := "held"
				if w != nil {
					got = w.Class
				}
				infra = append(infra, fmt.Sprintf("a %q violation did not reproduce from its Case (re-execution: %s); case: %s\n%s", v.Class, got, Short2(string(v.Case.Data), 1500), Short2(v.Detail, 1500)))
				continue
			}
		default:
			nMin++
			res, crashed := minimiseInChild(p, v, budget, scratch, nMin)
			if !res.Reproduced {
				if crashed {
					// the case kills the process: that is a violation in its own right
					if w := execInChild(p, v.Case, *vdir); w != nil {
						w.Seed, w.Tier = seed, *tier
						m = *w
						break
					}
				}
				infra = append(infra, fmt.Sprintf("a %q violation did not reproduce from its Case (re-execution: %s); case: %s\n%s", v.Class, res.Got, Short2(string(v.Case.Data), 1500), Short2(v.Detail, 1500)))
				continue
			}
			if res.Violation != nil {
				m = *res.Violation
			}
		}
		if kf := known.Match(&m); kf != nil { // minimisation must not walk into a known finding and hide a new one
			m = v
		}
		if seenMin[m.Key()] {
			continue
		}
		seenMin[m.Key()] = true
		perClass[v.Class]++
		unknown++
		path, err := WriteReplay(filepath.Join(*vdir, "replays"), &m)
		if err != nil {
			fmt.Fprintln(os.Stderr, "cannot write replay:", err)
			path = "(unwritable)"
		}
		fmt.Printf("---- violation class=%s\n%s\n", m.Class, Short2(m.Detail, 4000))
		fmt.Printf("VIOLATION property=%s replay=%s\n", p.ID(), path)
	}

	wall := time.Since(start).Seconds()
	ev := &Evidence{PropertyID: p.ID(), Tier: *tier, Seed: int64(seed), Level: p.Level(),
		Coverage: map[string]any{}, WallS: wall, Violations: unknown}
	stats := map[string]int64{}
	for k, v := range total.Stats {
		stats[k] = v
	}
	ev.Coverage["stats"] = stats
	sets := map[string]int{}
	for k, m := range total.Sets {
		sets[k] = len(m)
	}
	ev.Coverage["distinct_sets"] = sets
	samples := []any{}
	for _, s := range total.Samples {
		var x any
		json.Unmarshal(s, &x)
		samples = append(samples, x)
	}
	ev.Coverage["samples"] = samples
	ev.Coverage["exhaustive"] = false
	ev.Coverage["shards"] = n
	ev.Coverage["units"] = units
	ev.Coverage["seeds"] = map[string]any{"VERIF_SEED": seed, "sub_seeds": units, "sweep": segs, "note": "unit i of a segment uses the sub-seed mix(segment seed, property, i); every case inside a unit derives from it; the thorough tier is the thorough workload under VERIF_SEED plus the quick workload under further PRNG values derived from it"}
	ev.Coverage["known_finding_hits"] = total.Stats["known_finding_hits"]
	ev.Coverage["notes"] = total.Notes
	if cut, marked := total.Stats["cases_cut_by_memory_pressure"], total.Stats["cases_marked"]; marked > 0 && cut*50 > marked {
		// more than 2% of the cases ran under memory pressure and were cut short: a clean result would be vacuous
		infra = append(infra, fmt.Sprintf("%d of %d cases were cut short by the memory-pressure seam: the harness itself holds too much memory, the result would be vacuous", cut, marked))
	}
	ev.Coverage["infra_trouble"] = infra
	p.Describe(ev)
	if evs, ok := ev.Coverage["evaluations"].(int64); ok && wall > 0 {
		ev.Coverage["runs_per_hour"] = int64(float64(evs) / wall * 3600)
		ev.Coverage["sub_seeds_per_hour"] = int64(float64(units) / wall * 3600)
	}
	if !*noEvidence {
		if err := ev.Write(filepath.Join(*vdir, "evidence", p.ID()+".json")); err != nil {
			fmt.Fprintln(os.Stderr, "cannot write evidence:", err)
			return ExitInfra
		}
	}
	fmt.Printf("verifsim: property=%s tier=%s seed=%d units=%d shards=%d evaluations=%v distinct_nontrivial=%v violations=%d known=%d wall=%.1fs\n",
		p.ID(), *tier, seed, units, n, ev.Coverage["evaluations"], ev.Coverage["distinct_nontrivial"], unknown, knownHits, wall)
	if unknown > 0 {
		return ExitViolation
	}
	if len(infra) > 0 {
		for _, s := range infra {
			fmt.Fprintln(os.Stderr, "INFRA:", s)
		}
		return ExitInfra
	}
	return ExitHeld
}

func Short2(s string, n int) string {
	if len(s) > n {
		return s[:n] + "...(truncated)"
	}
	return s
}

func runChild(p Property, hook ChildHook, self, scratch, tier string, seed uint64, shard, of, from int, skip []int, stall, attempt int) childResult {
	dir := filepath.Join(scratch, fmt.Sprintf("c%d", shard))
	os.MkdirAll(dir, 0o755)
	out := filepath.Join(dir, fmt.Sprintf("result%d.json", attempt))
	mark := filepath.Join(dir, "mark.json")
	args := []string{"child", "-prop", p.ID(), "-tier", tier, "-seed", strconv.FormatUint(seed, 10),
		"-shard", strconv.Itoa(shard), "-of", strconv.Itoa(of), "-out", out, "-mark", mark,
		"-from", strconv.Itoa(from), "-stall", strconv.Itoa(stall)}
	if len(skip) > 0 {
		ss := make([]string, len(skip))
		for i, u := range skip {
			ss[i] = strconv.Itoa(u)
		}
		args = append(args, "-skip", strings.Join(ss, ","))
	}
	cmd := exec.Command(self, args...)
	cmd.Env = append(os.Environ(), "GOMAXPROCS=2", "VERIF_SCRATCH="+dir)
	if hook != nil {
		for _, e := range hook.ChildEnv(tier) {
			cmd.Env = append(cmd.Env, strings.ReplaceAll(e, "$SCRATCH", dir))
		}
	}
	var stderr bytes.Buffer
	cmd.Stderr = &stderr
	cmd.Stdout = &stderr
	err := cmd.Run()
	r := childResult{shard: shard, stderr: stderr.String(), lastDone: -1}
	if err != nil {
		if ee, ok := err.(*exec.ExitError); ok {
			r.exit = ee.ExitCode()
		} else {
			r.exit = -1
		}
		r.err = err
	}
	if bs, e := os.ReadFile(out); e == nil {
		var col Collector
		if json.Unmarshal(bs, &col) == nil {
			col.Sets = map[string]map[uint64]bool{}
			r.col = &col
		}
	}
	if bs, e := os.ReadFile(out + ".done"); e == nil {
		for _, l := range strings.Fields(string(bs)) {
			if n, err := strconv.Atoi(l); err == nil {
				r.lastDone = n
			}
		}
	}
	if r.lastDone < 0 && from > 0 {
		// nothing completed in this attempt: the stalled unit is the first one at or after from
		r.lastDone = -1
	}
	if r.exit != 0 {
		// violations found before the child died
		if bs, e := os.ReadFile(out + ".viol"); e == nil {
			if r.col == nil {
				r.col = NewCollector()
				r.col.SetList = map[string][]uint64{}
			}
			for _, line := range strings.Split(string(bs), "\n") {
				var v Violation
				if line != "" && json.Unmarshal([]byte(line), &v) == nil {
					dup := false
					for _, w := range r.col.Violations {
						if w.Key() == v.Key() {
							dup = true
						}
					}
					if !dup {
						r.col.Violations = append(r.col.Violations, v)
					}
				}
			}
		}
		if bs, e := os.ReadFile(mark); e == nil {
			var c Case
			if json.Unmarshal(bytes.TrimSpace(bs), &c) == nil && c.Property != "" {
				r.mark = &c
			}
		}
	}
	return r
}

// ---- log: deterministic event log of a few units (determinism self-test) ---------

// Logger is implemented by properties that can print a deterministic event
// log for a unit; `verifsim log` output must be byte-identical across
// processes, GOMAXPROCS settings and repetitions.
type Logger interface {
	LogUnit(tier string, seed uint64, unit int) string
}

func cmdLog(props map[string]Property, args []string) int {
	fs := flag.NewFlagSet("log", flag.ExitOnError)
	prop := fs.String("prop", "", "")
	tier := fs.String("tier", "quick", "")
	seed := fs.Uint64("seed", 1, "")
	from := fs.Int("from", 0, "")
	count := fs.Int("count", 1, "")
	fs.Parse(args)
	p := props[*prop]
	if p == nil {
		return ExitInfra
	}
	l, ok := p.(Logger)
	if !ok {
		fmt.Fprintln(os.Stderr, "property has no event log")
		return ExitInfra
	}
	n := p.Units(*tier, *seed)
	for u := *from; u < *from+*count && u < n; u++ {
		s := l.LogUnit(*tier, *seed, u)
		fmt.Printf("unit %d hash %016x\n", u, Hash64(s))
		if os.Getenv("VERIF_LOG_FULL") != "" {
			fmt.Println(s)
		}
	}
	return 0
}
