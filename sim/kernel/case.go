package kernel

import (
	"verif/sim/seams/simctx"

	"encoding/json"
	"fmt"
	"os"
	"path/filepath"
	"regexp"
	"sort"
	"strings"
	"sync"
	"sync/atomic"
	"time"
)

// Case fixes one simulated execution completely: programs, inputs and the
// explicit decision list of the seam involved. Exec(Case) draws no random
// number and reads no clock.
type Case struct {
	Property string          `json:"property"`
	Kind     string          `json:"kind"`
	Data     json.RawMessage `json:"data"`
}

func NewCase(prop, kind string, data any) Case {
	bs, err := json.Marshal(data)
	if err != nil {
		panic(err)
	}
	return Case{Property: prop, Kind: kind, Data: bs}
}

func (c Case) Decode(into any) error {
	dec := json.NewDecoder(strings.NewReader(string(c.Data)))
	dec.UseNumber()
	return dec.Decode(into)
}

// Violation is a Case together with what went wrong. Class is the stable
// violation class that minimisation and replay must preserve.
type Violation struct {
	Property  string `json:"property"`
	Class     string `json:"class"`
	Detail    string `json:"detail"`
	Case      Case   `json:"case"`
	Seed      uint64 `json:"seed"`
	Unit      int    `json:"unit"`
	Tier      string `json:"tier,omitempty"`
	Minimised bool   `json:"minimised"`
	Original  *Case  `json:"unminimised_case,omitempty"`
}

func (v *Violation) Key() string {
	return v.Class + "|" + string(v.Case.Data)
}

// Property is what each props/cXX package implements.
type Property interface {
	ID() string
	Level() string // evidence level: exploration | fault_enumeration
	// Units returns how many independently addressable work units a tier has.
	// Unit i is a pure function of (tier, seed, i).
	Units(tier string, seed uint64) int
	RunUnit(env *Env, unit int)
	// Exec replays one Case; nil means the property held.
	Exec(c Case) *Violation
	// Shrink returns smaller candidate Cases derived from c (one pass); the
	// kernel keeps a candidate iff Exec still yields the same class.
	Shrink(c Case) []Case
	Describe(ev *Evidence)
}

// Env is handed to RunUnit.
type Env struct {
	Tier string
	Seed uint64
	Out  *Collector
}

// Collector accumulates what one child process observed.
type Collector struct {
	Stats      map[string]int64           `json:"stats"`
	Sets       map[string]map[uint64]bool `json:"-"`
	SetList    map[string][]uint64        `json:"sets"`
	Samples    []json.RawMessage          `json:"samples"`
	Violations []Violation                `json:"violations"`
	Notes      []string                   `json:"notes"`
	markFile   *os.File
	violFile   *os.File // violations are appended as found so that they survive a hung or dying child
	doneFile   *os.File // completed units, one per line
	seed       uint64
	tier       string
	Known      *KnownFindings `json:"-"`
	knownSeen  map[string]bool
	memAtMark  int64
	lastMark   []byte
	markNanos  atomic.Int64 // read by the watchdog goroutine
	markMu     sync.Mutex   // guards lastMark/Unit snapshots for the watchdog
	wdMark     string
	wdUnit     int
	maxSamples int
	Unit       int `json:"-"`
}

func NewCollector() *Collector {
	return &Collector{
		Stats: map[string]int64{}, Sets: map[string]map[uint64]bool{},
		maxSamples: 6,
	}
}

func (c *Collector) Add(name string, n int64) { c.Stats[name] += n }
func (c *Collector) Inc(name string)          { c.Stats[name]++ }
func (c *Collector) Max(name string, n int64) {
	if c.Stats[name] < n {
		c.Stats[name] = n
	}
}

// Distinct records a member of a named set; sets are unioned across children.
func (c *Collector) Distinct(set string, key string) {
	m := c.Sets[set]
	if m == nil {
		m = map[uint64]bool{}
		c.Sets[set] = m
	}
	m[Hash64(key)] = true
}

func (c *Collector) DistinctH(set string, h uint64) {
	m := c.Sets[set]
	if m == nil {
		m = map[uint64]bool{}
		c.Sets[set] = m
	}
	m[h] = true
}

func (c *Collector) Sample(v any) {
	if len(c.Samples) >= c.maxSamples {
		return
	}
	bs, err := json.Marshal(v)
	if err == nil {
		c.Samples = append(c.Samples, bs)
	}
}

// IsKnown reports whether a violation matches a listed known finding (so that a sweep need not stop at it).
func (c *Collector) IsKnown(v *Violation) bool {
	return v != nil && c.Known != nil && c.Known.Match(v) != nil
}

func (c *Collector) WantSample() bool { return len(c.Samples) < c.maxSamples }

func (c *Collector) Note(format string, args ...any) {
	if len(c.Notes) < 50 {
		c.Notes = append(c.Notes, fmt.Sprintf(format, args...))
	}
}

func (c *Collector) Violate(v *Violation) {
	if v == nil {
		return
	}
	if simctx.MemEvents.Load() != c.memAtMark {
		// a run of this case was cut because of memory pressure at a timing-dependent point: not judged
		c.Stats["cases_not_judged_memory_pressure"]++
		return
	}
	v.Unit = c.Unit
	if c.Known != nil {
		if kf := c.Known.Match(v); kf != nil {
			// a listed finding: counted, one example kept, never crowds out other violations
			c.Stats["known_finding_hits"]++
			if c.knownSeen == nil {
				c.knownSeen = map[string]bool{}
			}
			if c.knownSeen[kf.ID] {
				return
			}
			c.knownSeen[kf.ID] = true
			v.Seed, v.Tier = c.seed, c.tier
			c.Violations = append(c.Violations, *v)
			return
		}
	}
	for _, w := range c.Violations {
		if w.Key() == v.Key() {
			return
		}
	}
	// Keep at most a handful per class; the rest are counted only.
	n := 0
	for _, w := range c.Violations {
		if w.Class == v.Class {
			n++
		}
	}
	c.Stats["violations_seen"]++
	if n >= 5 || len(c.Violations) >= 40 {
		return
	}
	v.Seed, v.Tier = c.seed, c.tier
	c.Violations = append(c.Violations, *v)
	if c.violFile != nil {
		if bs, err := json.Marshal(v); err == nil {
			c.violFile.Write(append(bs, '\n'))
		}
	}
}

// Mark records, outside the Go heap, which Case is about to execute, so that
// a runtime fatal error of this process can be attributed.
func (c *Collector) Mark(cs Case) {
	if c.Stats["cases_marked"] > 0 && simctx.MemEvents.Load() != c.memAtMark {
		c.Stats["cases_cut_by_memory_pressure"]++ // the previous case was cut short: it decided less, or nothing
	}
	c.Stats["cases_marked"]++
	simctx.Relieve()
	c.memAtMark = simctx.MemEvents.Load()
	c.markNanos.Store(time.Now().UnixNano())
	if c.markFile == nil {
		return
	}
	bs, _ := json.Marshal(cs)
	c.markMu.Lock()
	c.wdMark, c.wdUnit = string(bs), c.Unit
	c.markMu.Unlock()
	bs = append(bs, '\n')
	if len(bs) < len(c.lastMark) {
		pad := make([]byte, len(c.lastMark)-len(bs))
		for i := range pad {
			pad[i] = ' '
		}
		bs = append(bs, pad...)
	}
	c.markFile.WriteAt(bs, 0)
	c.lastMark = bs
}

// Touch tells the watchdog that progress is being made without changing the Case.
func (c *Collector) Touch() { c.markNanos.Store(time.Now().UnixNano()) }

func (c *Collector) watchdogView() (since time.Duration, unit int, mark string) {
	c.markMu.Lock()
	defer c.markMu.Unlock()
	return time.Since(time.Unix(0, c.markNanos.Load())), c.wdUnit, c.wdMark
}

func (c *Collector) finish() {
	c.SetList = map[string][]uint64{}
	for name, m := range c.Sets {
		l := make([]uint64, 0, len(m))
		for h := range m {
			l = append(l, h)
		}
		sort.Slice(l, func(i, j int) bool { return l[i] < l[j] })
		c.SetList[name] = l
	}
}

// Merge folds a child's collector into the orchestrator's.
func (c *Collector) Merge(o *Collector) {
	for k, v := range o.Stats {
		if strings.HasPrefix(k, "max_") {
			c.Max(k, v)
		} else {
			c.Stats[k] += v
		}
	}
	for name, l := range o.SetList {
		m := c.Sets[name]
		if m == nil {
			m = map[uint64]bool{}
			c.Sets[name] = m
		}
		for _, h := range l {
			m[h] = true
		}
	}
	for _, s := range o.Samples {
		if len(c.Samples) < 12 {
			c.Samples = append(c.Samples, s)
		}
	}
	for i := range o.Violations {
		dup := false
		for _, w := range c.Violations {
			if w.Key() == o.Violations[i].Key() {
				dup = true
			}
		}
		if !dup {
			c.Violations = append(c.Violations, o.Violations[i])
		}
	}
	for _, n := range o.Notes {
		if len(c.Notes) < 100 {
			c.Notes = append(c.Notes, n)
		}
	}
}

func (c *Collector) SetSize(name string) int { return len(c.Sets[name]) }

// ---- replay files ---------------------------------------------------------

func WriteReplay(dir string, v *Violation) (string, error) {
	if err := os.MkdirAll(dir, 0o755); err != nil {
		return "", err
	}
	bs, err := json.MarshalIndent(v, "", " ")
	if err != nil {
		return "", err
	}
	name := fmt.Sprintf("%s-%s-%016x.json", v.Property, sanitize(v.Class), Hash64(v.Key()))
	path := filepath.Join(dir, name)
	return path, os.WriteFile(path, append(bs, '\n'), 0o644)
}

func ReadReplay(path string) (*Violation, error) {
	bs, err := os.ReadFile(path)
	if err != nil {
		return nil, err
	}
	var v Violation
	if err := json.Unmarshal(bs, &v); err != nil {
		return nil, err
	}
	return &v, nil
}

var sanitizeRe = regexp.MustCompile(`[^A-Za-z0-9_.-]+`)

func sanitize(s string) string {
	s = sanitizeRe.ReplaceAllString(s, "_")
	if len(s) > 40 {
		s = s[:40]
	}
	return s
}

// ---- known findings -------------------------------------------------------

// KnownFindings is /verif/known_findings.json. A "known" entry suppresses
// exactly the violations its matcher describes; a "fixed" entry suppresses
// nothing.
type KnownFindings struct {
	Known []KnownFinding `json:"known"`
	Fixed []string       `json:"fixed"`
}

type KnownFinding struct {
	Property string `json:"property"`
	ID       string `json:"id"`
	What     string `json:"what"`
	// All given matchers must match.
	ClassRe  string `json:"class_re,omitempty"`
	DetailRe string `json:"detail_re,omitempty"`
	CaseRe   string `json:"case_re,omitempty"`
}

func LoadKnown(path string) (*KnownFindings, error) {
	bs, err := os.ReadFile(path)
	if err != nil {
		if os.IsNotExist(err) {
			return &KnownFindings{}, nil
		}
		return nil, err
	}
	var k KnownFindings
	if err := json.Unmarshal(bs, &k); err != nil {
		return nil, fmt.Errorf("%s: %w", path, err)
	}
	return &k, nil
}

func (k *KnownFindings) Match(v *Violation) *KnownFinding {
	for i := range k.Known {
		f := &k.Known[i]
		if f.Property != v.Property {
			continue
		}
		if f.ClassRe != "" && !regexp.MustCompile(f.ClassRe).MatchString(v.Class) {
			continue
		}
		if f.DetailRe != "" && !regexp.MustCompile(f.DetailRe).MatchString(v.Detail) {
			continue
		}
		if f.CaseRe != "" && !regexp.MustCompile(f.CaseRe).MatchString(string(v.Case.Data)) {
			continue
		}
		return f
	}
	return nil
}
