// Package kernel holds what every simulated check shares: the PRNG that is the
// only source of randomness, the typed canonical value encoding, Case / replay
// files, evidence and the sharded child-process runner.
package kernel

// Rand is splitmix64. One Rand is created per run from mix(VERIF_SEED, property,
// run index); nothing else in the simulator produces random numbers.
type Rand struct{ s uint64 }

func NewRand(seed uint64) *Rand { return &Rand{s: seed} }

func (r *Rand) Uint64() uint64 {
	r.s += 0x9e3779b97f4a7c15
	z := r.s
	z = (z ^ (z >> 30)) * 0xbf58476d1ce4e5b9
	z = (z ^ (z >> 27)) * 0x94d049bb133111eb
	return z ^ (z >> 31)
}

// Mix derives a sub-seed from a seed and any number of coordinates.
func Mix(seed uint64, xs ...uint64) uint64 {
	r := Rand{s: seed}
	h := r.Uint64()
	for _, x := range xs {
		r.s = h ^ (x * 0xff51afd7ed558ccd)
		h = r.Uint64()
	}
	return h
}

// MixS mixes a string coordinate.
func MixS(seed uint64, s string) uint64 {
	h := uint64(14695981039346656037)
	for i := 0; i < len(s); i++ {
		h ^= uint64(s[i])
		h *= 1099511628211
	}
	return Mix(seed, h)
}

func (r *Rand) Intn(n int) int {
	if n <= 0 {
		return 0
	}
	return int(r.Uint64() % uint64(n))
}

// Range returns a value in [lo, hi].
func (r *Rand) Range(lo, hi int) int {
	if hi <= lo {
		return lo
	}
	return lo + r.Intn(hi-lo+1)
}

func (r *Rand) Float() float64 { return float64(r.Uint64()>>11) / (1 << 53) }

func (r *Rand) Bool(p float64) bool { return r.Float() < p }

func (r *Rand) Fork() *Rand { return NewRand(r.Uint64()) }

func Pick[T any](r *Rand, xs []T) T { return xs[r.Intn(len(xs))] }

// Perm returns a permutation of 0..n-1.
func (r *Rand) Perm(n int) []int {
	p := make([]int, n)
	for i := range p {
		p[i] = i
	}
	for i := n - 1; i > 0; i-- {
		j := r.Intn(i + 1)
		p[i], p[j] = p[j], p[i]
	}
	return p
}

// Weighted picks an index with probability proportional to ws[i].
func (r *Rand) Weighted(ws []int) int {
	t := 0
	for _, w := range ws {
		t += w
	}
	x := r.Intn(t)
	for i, w := range ws {
		if x < w {
			return i
		}
		x -= w
	}
	return len(ws) - 1
}

// Hash64 is FNV-1a, used for distinct counting and fingerprints.
func Hash64(s string) uint64 {
	h := uint64(14695981039346656037)
	for i := 0; i < len(s); i++ {
		h ^= uint64(s[i])
		h *= 1099511628211
	}
	return h
}
