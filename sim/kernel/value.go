package kernel

import (
	"bytes"
	"encoding/json"
	"fmt"
	"math"
	"math/big"
	"reflect"
	"sort"
	"strconv"
	"strings"

	"github.com/itchyny/gojq"
)

// Enc is the typed canonical encoding of a gojq value. Two values have the
// same encoding iff they are equal including their Go representation
// (int != float64 != *big.Int != json.Number), slice lengths and key sets.
// Error values are encoded by type, catchability and value/message.
func Enc(v any) string {
	var sb strings.Builder
	enc(&sb, v, 0)
	return sb.String()
}

// Cyclic reports whether an encoding met a container that contains itself (JSON values are trees).
func Cyclic(enc string) bool { return strings.Contains(enc, cycleMark) }

const cycleMark = "<cycle>"

// cycleFrom: below this depth the containers on the current path are tracked.
const cycleFrom = 64

const maxDepth = 10000

func enc(sb *strings.Builder, v any, depth int) { encp(sb, v, depth, nil, false) }

// EncFull is Enc over the full capacity of every array: the slots between length and capacity
// follow a `|`. Memory behind the length of a slice the caller owns is the caller's too.
func EncFull(v any) string {
	var sb strings.Builder
	encp(&sb, v, 0, nil, true)
	return sb.String()
}

// maxEncBytes bounds an encoding: values that share sub-values (`[., .]` nested forty times) are
// small in memory and astronomically large as trees; beyond the bound the encoding ends with a mark.
const maxEncBytes = 4 << 20

const tooBigMark = "<too-big>"

// TooBig reports whether an encoding was cut at maxEncBytes.
func TooBig(enc string) bool {
	return len(enc) >= maxEncBytes && strings.Contains(enc[maxEncBytes-len(tooBigMark):], tooBigMark)
}

func encp(sb *strings.Builder, v any, depth int, path map[uintptr]bool, full bool) {
	if sb.Len() >= maxEncBytes {
		if !strings.HasSuffix(sb.String(), tooBigMark) {
			sb.WriteString(tooBigMark)
		}
		return
	}
	if depth >= cycleFrom {
		var p uintptr
		switch v := v.(type) {
		case []any:
			if len(v) > 0 {
				p = reflect.ValueOf(v).Pointer()
			}
		case map[string]any:
			if len(v) > 0 {
				p = reflect.ValueOf(v).Pointer()
			}
		}
		if p != 0 {
			if path == nil {
				path = map[uintptr]bool{}
			}
			if path[p] {
				sb.WriteString(cycleMark)
				return
			}
			path[p] = true
			defer delete(path, p)
		}
	}
	if depth > maxDepth {
		sb.WriteString("<too-deep>")
		return
	}
	switch v := v.(type) {
	case nil:
		sb.WriteString("null")
	case bool:
		if v {
			sb.WriteString("true")
		} else {
			sb.WriteString("false")
		}
	case int:
		sb.WriteString("i")
		sb.WriteString(strconv.Itoa(v))
	case float64:
		if math.IsNaN(v) {
			sb.WriteString("fNaN")
		} else {
			sb.WriteString("f")
			sb.WriteString(strconv.FormatUint(math.Float64bits(v), 16))
			sb.WriteString("(")
			sb.WriteString(strconv.FormatFloat(v, 'g', -1, 64))
			sb.WriteString(")")
		}
	case *big.Int:
		if v == nil {
			sb.WriteString("B<nil>")
		} else {
			sb.WriteString("B")
			sb.WriteString(v.String())
		}
	case json.Number:
		sb.WriteString("N")
		sb.WriteString(string(v))
	case string:
		sb.WriteString(strconv.Quote(v))
	case []any:
		sb.WriteString("[")
		for i, x := range v {
			if i > 0 {
				sb.WriteString(",")
			}
			encp(sb, x, depth+1, path, full)
		}
		if full && cap(v) > len(v) {
			sb.WriteString("|")
			for i, x := range v[len(v):cap(v)] {
				if i > 0 {
					sb.WriteString(",")
				}
				encp(sb, x, depth+1, path, full)
			}
		}
		sb.WriteString("]")
	case map[string]any:
		ks := make([]string, 0, len(v))
		for k := range v {
			ks = append(ks, k)
		}
		sort.Strings(ks)
		sb.WriteString("{")
		for i, k := range ks {
			if i > 0 {
				sb.WriteString(",")
			}
			sb.WriteString(strconv.Quote(k))
			sb.WriteString(":")
			encp(sb, v[k], depth+1, path, full)
		}
		sb.WriteString("}")
	case error:
		sb.WriteString(EncErr(v))
	default:
		fmt.Fprintf(sb, "<%T:%v>", v, v)
	}
}

// EncErr encodes an error value: Go type, and the carried value for a
// gojq.ValueError (what `catch` would see), else the message.
func EncErr(e error) string {
	var sb strings.Builder
	fmt.Fprintf(&sb, "E<%T>", e)
	if ve, ok := e.(gojq.ValueError); ok {
		sb.WriteString("V:")
		func() {
			defer func() {
				if r := recover(); r != nil {
					fmt.Fprintf(&sb, "<panic in Value(): %v>", r)
				}
			}()
			enc(&sb, ve.Value(), 0)
		}()
	}
	sb.WriteString("M:")
	func() {
		defer func() {
			if r := recover(); r != nil {
				fmt.Fprintf(&sb, "<panic in Error(): %v>", r)
			}
		}()
		sb.WriteString(strconv.Quote(e.Error()))
	}()
	return sb.String()
}

// Short truncates an encoding for reports.
func Short(s string) string {
	if len(s) > 300 {
		return s[:300] + fmt.Sprintf("...(%d bytes)", len(s))
	}
	return s
}

// Clone is a deep copy preserving Go representations. extra > 0 gives every
// slice that much spare capacity, filled with a sentinel string so that an
// append into a caller's backing array is distinguishable.
func Clone(v any, extra int) any {
	switch v := v.(type) {
	case []any:
		w := make([]any, len(v), len(v)+extra)
		for i, x := range v {
			w[i] = Clone(x, extra)
		}
		sp := w[len(w):cap(w)]
		for i := range sp {
			sp[i] = "<spare>"
		}
		return w
	case map[string]any:
		w := make(map[string]any, len(v))
		for k, x := range v {
			w[k] = Clone(x, extra)
		}
		return w
	case *big.Int:
		if v == nil {
			return v
		}
		return new(big.Int).Set(v)
	default:
		return v
	}
}

// ValueSpec is the replayable description of an input value.
type ValueSpec struct {
	JSON  string `json:"json"`
	Num   string `json:"num,omitempty"`   // "" = int/float64/*big.Int, "jsonnumber" = json.Number
	Spare int    `json:"spare,omitempty"` // spare capacity on every slice
	Alias bool   `json:"alias,omitempty"` // equal sub-containers become one Go object
}

// Build materialises the value. It is a pure function of the spec.
func (s ValueSpec) Build() (any, error) {
	dec := json.NewDecoder(strings.NewReader(s.JSON))
	dec.UseNumber()
	var v any
	if err := dec.Decode(&v); err != nil {
		return nil, fmt.Errorf("ValueSpec %q: %w", s.JSON, err)
	}
	v = convertNumbers(v, s.Num)
	if s.Spare > 0 {
		v = Clone(v, s.Spare)
	}
	if s.Alias {
		v = aliasEqual(v, map[string]any{})
	}
	return v, nil
}

func MustBuild(s ValueSpec) any {
	v, err := s.Build()
	if err != nil {
		panic(err)
	}
	return v
}

func convertNumbers(v any, mode string) any {
	switch v := v.(type) {
	case json.Number:
		if mode == "jsonnumber" {
			return v
		}
		return ParseNumber(string(v))
	case []any:
		for i, x := range v {
			v[i] = convertNumbers(x, mode)
		}
		return v
	case map[string]any:
		for k, x := range v {
			v[k] = convertNumbers(x, mode)
		}
		return v
	default:
		return v
	}
}

// ParseNumber maps a JSON number literal onto int, *big.Int or float64 the way
// a caller of the library normally would.
func ParseNumber(s string) any {
	if !strings.ContainsAny(s, ".eE") {
		if i, err := strconv.Atoi(s); err == nil {
			return i
		}
		if b, ok := new(big.Int).SetString(s, 10); ok {
			return b
		}
	}
	f, err := strconv.ParseFloat(s, 64)
	if err != nil {
		if math.IsInf(f, 0) {
			return f
		}
		return math.NaN()
	}
	return f
}

func aliasEqual(v any, seen map[string]any) any {
	switch v := v.(type) {
	case []any:
		for i, x := range v {
			v[i] = aliasEqual(x, seen)
		}
		if len(v) == 0 {
			return v
		}
		k := Enc(v)
		if w, ok := seen[k]; ok {
			return w
		}
		seen[k] = v
		return v
	case map[string]any:
		ks := make([]string, 0, len(v))
		for k := range v {
			ks = append(ks, k)
		}
		sort.Strings(ks)
		for _, k := range ks {
			v[k] = aliasEqual(v[k], seen)
		}
		if len(v) == 0 {
			return v
		}
		k := Enc(v)
		if w, ok := seen[k]; ok {
			return w
		}
		seen[k] = v
		return v
	default:
		return v
	}
}

// ParseJSONStream splits a text into JSON documents (numbers kept as
// json.Number text, re-encoded compactly); ok is false if the text is not a
// well-formed stream.
func ParseJSONStream(text string) (docs []string, ok bool) {
	dec := json.NewDecoder(strings.NewReader(text))
	dec.UseNumber()
	for {
		var v any
		if err := dec.Decode(&v); err != nil {
			if err.Error() == "EOF" {
				return docs, true
			}
			return docs, false
		}
		var buf bytes.Buffer
		e := json.NewEncoder(&buf)
		e.SetEscapeHTML(false)
		if err := e.Encode(v); err != nil {
			return docs, false
		}
		docs = append(docs, strings.TrimSuffix(buf.String(), "\n"))
	}
}
