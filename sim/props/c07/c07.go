// Package c07 decides C07 (cancellation is prompt, prefix-consistent and
// terminal) by fault enumeration: the fault is the instant of cancellation,
// placed either at the k-th interpreter poll of ctx.Done() (mode A) or inside
// the t-th call of a Go callback running in the middle of a VM instruction
// (mode B, asynchronous to polls).
package c07

import (
	"context"
	"errors"
	"fmt"
	"regexp"
	"sort"
	"strings"

	"github.com/itchyny/gojq"

	"verif/sim/kernel"
	"verif/sim/seams/simctx"
	"verif/sim/workload"
)

const ID = "C07"

type Prop struct{}

func (Prop) ID() string    { return ID }
func (Prop) Level() string { return "fault_enumeration" }

// StallSeconds: a correct interpreter polls the simulated context at every
// step, so every run is cut by the step cap within milliseconds; a child that
// makes no progress for this long is executing without polling.
func (Prop) StallSeconds(tier string) int { return 25 }

// Data is the replayable description of one cancelled run.
type Data struct {
	Src      string             `json:"src"`
	Input    kernel.ValueSpec   `json:"input"`
	VarNames []string           `json:"var_names,omitempty"`
	VarVals  []kernel.ValueSpec `json:"var_vals,omitempty"`
	Mode     string             `json:"mode"`              // A: poll-indexed, B: tick-indexed, P: protocol only
	K        int                `json:"k"`                 // poll (A) or tick (B) at which the context is cancelled; 0 = before RunWithContext
	KEnd     int                `json:"k_end,omitempty"`   // if > 0: K = (polls or ticks of the uncancelled run) + KEnd, resolved at Exec time
	Between  bool               `json:"between,omitempty"` // K counts Next calls: the context is cancelled between two calls, just before call K
	TickKind string             `json:"tick_kind,omitempty"`
	ViaQuery bool               `json:"via_query,omitempty"` // Query.RunWithContext instead of Code.RunWithContext
	Budget   int                `json:"budget"`              // step cap of the reference run (polls)
	Origin   string             `json:"origin,omitempty"`
}

type tiers struct {
	K        int // exhaustive sweep bound on polls
	SampleK  int // sampled cancel instants beyond the bound
	Budget   int
	T        int // exhaustive tick bound for mode B
	SampleT  int
	Gen      int // generated programs
	MaxOut   int
	Compose  int // composed loop templates
	GenLoops int
}

func tier(t string) tiers {
	if t == "thorough" {
		return tiers{K: 5000, SampleK: 400, Budget: 20000, T: 1000, SampleT: 80, Gen: 20000, MaxOut: 4000, Compose: 12000}
	}
	return tiers{K: 800, SampleK: 60, Budget: 5000, T: 100, SampleT: 20, Gen: 2000, MaxOut: 1000, Compose: 1500}
}

// ---- workload -------------------------------------------------------------

type item struct {
	d Data
}

func tickProgram(src string, kind string) string {
	switch kind {
	case "func":
		return strings.ReplaceAll(src, "%TICK%", "tick")
	case "iter":
		return strings.ReplaceAll(src, "%TICK%", "first(ticks)")
	case "input":
		return strings.ReplaceAll(src, "%TICK%", "(. as $v | input | $v)")
	}
	return strings.ReplaceAll(src, "%TICK%", ".")
}

var wrappers = []string{
	`try (%P%) catch .`,
	`(%P%)?`,
	`[limit(3; %P%)]`,
	`first(%P%)`,
	`label $out | %P%`,
	`def w: %P%; w`,
	`def w(f): f; w(%P%)`,
	`def w($x): %P%; w(1)`,
	`reduce (%P%) as $x (0; . + 1)`,
	`foreach (%P%) as $x (0; . + 1)`,
	`[%P%] | length`,
	`(%P%) as $x | $x`,
	`. as $in | %P%`,
	`(%P%) | select(. == "never")`,
	`isempty(%P%)`,
	`(%P%), 1`,
	`1, (%P%)`,
	`(%P%) // 2`,
	`{a: (%P%)}`,
	`path(%P%)?`,
	`if true then %P% else 1 end`,
	`[1,2][] as $o | %P%`,
	`.. as $o | %P%`,
	`limit(2; (1,2) | %P%)`,
	`try (%P% | error) catch .`,
	`(%P%) | tojson`,
}

var (
	itemsCache    []item
	itemsCacheKey string
)

// allItems is memoised: the item list is a pure function of (tier, seed).
func allItems(tr tiers, seed uint64) []item {
	key := fmt.Sprint(tr, seed)
	if itemsCacheKey != key || itemsCache == nil {
		itemsCache, itemsCacheKey = buildItems(tr, seed), key
	}
	return itemsCache
}

func buildItems(tr tiers, seed uint64) []item {
	var items []item
	add := func(d Data) {
		d.Budget = tr.Budget
		items = append(items, item{d})
	}
	// mode B: every loop template x tick kind
	for _, l := range workload.Loops {
		for _, kind := range []string{"func", "iter", "input"} {
			add(Data{Src: tickProgram(l.Src, kind), Input: kernel.ValueSpec{JSON: l.In}, Mode: "B", TickKind: kind, Origin: "loop"})
		}
	}
	// composed loop templates (seeded)
	r := kernel.NewRand(kernel.Mix(seed, 7, 1))
	for i := 0; i < tr.Compose; i++ {
		l := kernel.Pick(r, workload.Loops)
		src := l.Src
		depth := r.Range(1, 2)
		for j := 0; j < depth; j++ {
			w := kernel.Pick(r, wrappers)
			src = strings.ReplaceAll(w, "%P%", src)
		}
		kind := kernel.Pick(r, []string{"func", "func", "iter", "input"})
		mode := "B"
		if r.Bool(0.3) {
			mode, kind = "A", ""
		}
		add(Data{Src: tickProgram(src, kind), Input: kernel.ValueSpec{JSON: l.In}, Mode: mode, TickKind: kind, Origin: "composed-loop", ViaQuery: mode == "A" && r.Bool(0.2)})
	}
	// mode A: loops with the tick replaced by identity
	for _, l := range workload.Loops {
		add(Data{Src: tickProgram(l.Src, ""), Input: kernel.ValueSpec{JSON: l.In}, Mode: "A", Origin: "loop"})
	}
	for i, f := range workload.Finite {
		add(Data{Src: f.Src, Input: kernel.ValueSpec{JSON: f.In}, Mode: "A", Origin: "finite", ViaQuery: i%5 == 0})
	}
	for _, src := range iterProgs {
		for _, in := range []string{`{"a":[1,2],"b":null}`, `[1,[2],"x"]`} {
			add(Data{Src: src, Input: kernel.ValueSpec{JSON: in}, Mode: "A", Origin: "custom-iterators"})
		}
	}
	// the same inside the usual wrappers
	wr := kernel.NewRand(kernel.Mix(seed, 7, 5))
	for i := 0; i < tr.Compose/2; i++ {
		src := strings.ReplaceAll(kernel.Pick(wr, wrappers), "%P%", kernel.Pick(wr, iterProgs))
		add(Data{Src: src, Input: kernel.ValueSpec{JSON: kernel.Pick(wr, []string{`{"a":[1,2],"b":null}`, `[1,[2],"x"]`, `null`})}, Mode: "A", Origin: "custom-iterators-composed"})
	}
	// every error site in every calling context: the iterator still advances after the error
	er := kernel.NewRand(kernel.Mix(seed, 7, 6))
	for i := 0; i < tr.Compose; i++ {
		e := workload.ErrorSites[er.Intn(len(workload.ErrorSites))]
		if !workload.Deterministic(e.Src) {
			continue
		}
		add(Data{Src: e.Src, Input: kernel.ValueSpec{JSON: e.In}, Mode: "A", Origin: "error-sites", ViaQuery: i%11 == 0})
	}
	corpus, _ := workload.Corpus()
	for i, p := range corpus {
		if !workload.Deterministic(p.Src) {
			continue
		}
		for j, in := range p.Inputs {
			if j >= 2 {
				break
			}
			add(Data{Src: p.Src, Input: in, VarNames: p.VarNames, VarVals: p.VarVals, Mode: "A", Origin: p.Origin, ViaQuery: i%7 == 0 && len(p.VarNames) == 0})
		}
	}
	mr := kernel.NewRand(kernel.Mix(seed, 7, 4))
	for k := 0; k < tr.Gen/2 && len(corpus) > 0; k++ {
		p := corpus[mr.Intn(len(corpus))]
		if !workload.Deterministic(p.Src) || len(p.Inputs) == 0 {
			continue
		}
		if m := workload.MutateProgram(mr, p.Src); workload.Deterministic(m) {
			add(Data{Src: m, Input: p.Inputs[0], VarNames: p.VarNames, VarVals: p.VarVals, Mode: "A", Origin: "corpus-mutant"})
		}
	}
	g := workload.NewGen(kernel.Mix(seed, 7, 2))
	for i := 0; i < tr.Gen; i++ {
		src, in := g.Program()
		add(Data{Src: src, Input: in, Mode: "A", Origin: "generated", ViaQuery: i%9 == 0})
	}
	return items
}

const unitSize = 8

func (Prop) Units(t string, seed uint64) int {
	n := len(allItems(tier(t), seed))
	return (n + unitSize - 1) / unitSize
}

// ---- execution ---------------------------------------------------------------

type step struct {
	Val   string // typed encoding, or "" with Ok=false
	Ok    bool
	IsErr bool
	Polls int
	Ticks int
}

type abort struct{ why string }

type world struct {
	ctx       *simctx.Ctx
	ticks     int
	closeTick int // cancel inside this tick (mode B)
	ticksLate int // ticks that completed after the close
	tickCap   int
	inputN    int
	// cancelBeforeCall >= 0: the context is cancelled between two Next calls, just before call
	// number cancelBeforeCall (0 = after RunWithContext, before the first call)
	cancelBeforeCall int
}

func (w *world) tick() {
	if w.ctx.Closed && w.ctx.ByFault {
		w.ticksLate++
		if w.ticksLate > 3 {
			panic(abort{"ticks keep happening after cancellation"})
		}
	}
	w.ticks++
	if w.closeTick > 0 && w.ticks == w.closeTick {
		w.ctx.Cancel()
	}
	if w.tickCap > 0 && w.ticks > w.tickCap {
		panic(abort{"tick cap"})
	}
}

type tickIter struct {
	w *world
	v any
}

func (t *tickIter) Next() (any, bool) { t.w.tick(); return t.v, true }

type inputIter struct{ w *world }

func (t *inputIter) Next() (any, bool) { t.w.tick(); t.w.inputN++; return t.w.inputN, true }

// Custom functions registered in every compile: iterator functions returning every kind of
// iterator NewIter can make (empty, one value, one error, several values, a value-error-value
// sequence) and a plain function returning an error.
func customFunctions() []gojq.CompilerOption {
	return []gojq.CompilerOption{
		gojq.WithIterFunction("it0", 0, 0, func(v any, _ []any) gojq.Iter { return gojq.NewIter[any]() }),
		gojq.WithIterFunction("it1", 0, 0, func(v any, _ []any) gojq.Iter { return gojq.NewIter(v) }),
		gojq.WithIterFunction("iterr", 0, 0, func(v any, _ []any) gojq.Iter { return gojq.NewIter[any](errors.New("iterator function error")) }),
		gojq.WithIterFunction("it2", 0, 0, func(v any, _ []any) gojq.Iter { return gojq.NewIter(v, v) }),
		gojq.WithIterFunction("itve", 0, 0, func(v any, _ []any) gojq.Iter { return gojq.NewIter[any](v, errors.New("middle error"), v) }),
		gojq.WithIterFunction("itn", 1, 1, func(v any, args []any) gojq.Iter {
			n, _ := args[0].(int)
			vs := make([]any, 0, max(0, min(n, 50)))
			for i := 0; i < n && i < 50; i++ {
				vs = append(vs, i)
			}
			return gojq.NewIter(vs...)
		}),
		gojq.WithFunction("ferr", 0, 0, func(v any, _ []any) any { return errors.New("function error") }),
		// callbacks with deadlines of their own: their errors are (or wrap) context errors although the
		// run's context is alive; they are ordinary, catchable errors of the query
		gojq.WithFunction("fctx", 0, 0, func(v any, _ []any) any { return fmt.Errorf("callback deadline: %w", context.DeadlineExceeded) }),
		gojq.WithFunction("fcanc", 0, 0, func(v any, _ []any) any { return context.Canceled }),
		gojq.WithIterFunction("itctxe", 0, 0, func(v any, _ []any) gojq.Iter {
			return gojq.NewIter[any](fmt.Errorf("iterator gave up: %w", context.Canceled))
		}),
		gojq.WithIterFunction("itctx", 0, 0, func(v any, _ []any) gojq.Iter {
			return gojq.NewIter[any](v, fmt.Errorf("iterator deadline: %w", context.DeadlineExceeded), v)
		}),
		gojq.WithFunction("fverr", 0, 0, func(v any, _ []any) any { return valueError{map[string]any{"code": 7, "in": v}} }),
		gojq.WithFunction("fid", 0, 1, func(v any, _ []any) any { return v }),
	}
}

// iterProgs: custom iterator functions in every calling context (with and without a pending fork).
var iterProgs = []string{
	`it0`, `it1`, `iterr`, `it2`, `itve`, `itn(3)`, `ferr`, `fid`, `fid(1)`,
	`.a | iterr`, `iterr | tostring`, `1, iterr`, `iterr, 1`, `{a: iterr}`, `{a: it1, b: iterr}`, `[iterr]`, `[it1]`, `iterr?`, `(iterr)?`, `.[] | iterr`, `.[] | it1`, `try iterr catch .`, `iterr // 1`, `it0 // 1`,
	`it2 | iterr`, `limit(1; itve)`, `first(iterr)`, `first(itve)`, `[limit(2; itve)]`, `path(it1)`, `path(iterr)?`, `reduce iterr as $x (0; .)`, `reduce it2 as $x (0; . + 1)`, `foreach itve as $x (0; . + 1)`, `label $l | iterr`,
	`label $l | it2 | ., break $l`, `iterr as $x | $x`, `it1 as $x | iterr`, `def f: iterr; f`, `def f(g): g; f(iterr)`, `def f(g): g; f(it2)`, `1 + iterr`, `iterr + 1`, `if iterr then 1 else 2 end`, `if . then iterr else it1 end`,
	`.[iterr]?`, `"\(iterr)"`, `itve | tostring`, `[itve]`, `[itve?]`, `itve?`, `try itve catch "c"`, `itn(0)`, `itn(1)`, `[itn(4)] | length`, `itn(3) | iterr`, `itn(2) | itve`, `isempty(iterr)`, `isempty(it0)`, `any(itve; true)`,
	`ferr | tostring`, `{a: ferr}`, `[ferr]`, `ferr?`, `try ferr catch .`, `1, ferr, 2`, `.[] | ferr`, `it1 | ferr`, `itve | ferr`, `ferr, iterr`, `iterr, ferr, it1`, `(iterr, ferr)?`, `repeat(it1)`, `repeat(itve)?`, `recurse(it0)`, `[limit(5; repeat(it2))]`,
	`.[] |= it1`, `.[] |= it0`, `.[] |= iterr`, `del(it0)`, `path(.[] | it1)`, `to_entries | map(it1)`, `map(itve)?`, `map(it0)`, `with_entries(it1)`, `sort_by(it1)`, `group_by(it2)?`, `walk(it1)`, `limit(3; it2, itve, it1)`, `first(it0, it1)`, `[first(it2), last(it2)]`,
}

var loopy = regexp.MustCompile(`\b(repeat|recurse|range|until|while|inputs|input|limit|combinations|walk|paths|splits|scan|match|env|tick|ticks|it2|itn|itve|itctx|getpath|tostream|fromstream|def)\b|\.\.`)

type valueError struct{ v any }

func (e valueError) Error() string { return "callback error with a value" }
func (e valueError) Value() any    { return e.v }

func init() {
	// the same calling contexts with the callbacks whose errors look like cancellations
	seen := map[string]bool{}
	for _, p := range iterProgs {
		seen[p] = true
	}
	for _, p := range append([]string{}, iterProgs...) {
		for _, sub := range [][2]string{{"ferr", "fctx"}, {"ferr", "fcanc"}, {"ferr", "fverr"}, {"iterr", "itctxe"}, {"itve", "itctx"}} {
			if q := strings.ReplaceAll(p, sub[0], sub[1]); q != p && !seen[q] {
				seen[q] = true
				iterProgs = append(iterProgs, q)
			}
		}
	}
}

func (w *world) options(d *Data) []gojq.CompilerOption {
	opts := customFunctions()
	if len(d.VarNames) > 0 {
		opts = append(opts, gojq.WithVariables(d.VarNames))
	}
	if d.Mode == "B" {
		switch d.TickKind {
		case "func":
			opts = append(opts, gojq.WithFunction("tick", 0, 0, func(v any, _ []any) any { w.tick(); return v }))
		case "iter":
			opts = append(opts, gojq.WithIterFunction("ticks", 0, 0, func(v any, _ []any) gojq.Iter { return &tickIter{w, v} }))
		case "input":
			opts = append(opts, gojq.WithInputIter(&inputIter{w}))
		}
	}
	return opts
}

type outcome struct {
	steps     []step
	exhausted bool   // Next returned (nil,false)
	panicked  string // panic message out of gojq
	aborted   string // harness abort (sentinel)
	budgetHit bool
	extra     []step // the calls made after exhaustion
	bystander string // what went wrong in the runs started after exhaustion
	polls     int
	ticks     int
	closedIn  int // index of the Next call during which the fault closed the channel (-1: not closed)
	outCapHit bool
}

// run executes one run of d under ctx settings. closeAtPoll/closeAtTick place
// the fault; pre = cancel before RunWithContext.
func run(d *Data, q *gojq.Query, code *gojq.Code, w *world, input any, vars []any, maxOut int) (o outcome) {
	o.closedIn = -1
	defer func() {
		if r := recover(); r != nil {
			if a, ok := r.(abort); ok {
				o.aborted = a.why
			} else {
				o.panicked = fmt.Sprintf("%v", r)
			}
		}
		if !o.exhausted {
			o.polls, o.ticks = w.ctx.Polls, w.ticks
		}
	}()
	var it gojq.Iter
	if d.ViaQuery {
		it = q.RunWithContext(w.ctx, input)
	} else {
		it = code.RunWithContext(w.ctx, input, vars...)
	}
	for i := 0; ; i++ {
		if w.cancelBeforeCall == i && !w.ctx.Closed {
			w.ctx.Cancel() // between two calls: the caller's goroutine, not a poll, is where the cancellation happens
			o.closedIn = i
		}
		was := w.ctx.Closed
		v, ok := it.Next()
		if !was && w.ctx.Closed {
			if w.ctx.ByFault {
				o.closedIn = i
			} else {
				o.budgetHit = true
			}
		}
		if !ok {
			o.exhausted = true
			o.polls, o.ticks = w.ctx.Polls, w.ticks // simulated time at exhaustion, before the extra calls
			break
		}
		st := step{Ok: true, Polls: w.ctx.Polls, Ticks: w.ticks}
		if e, isErr := v.(error); isErr {
			st.IsErr = true
			st.Val = kernel.EncErr(e)
			if w.ctx.Closed && e == w.ctx.Err() {
				st.Val = "CTXERR"
			}
		} else {
			st.Val = kernel.Enc(v)
		}
		o.steps = append(o.steps, st)
		if len(o.steps) >= maxOut {
			o.outCapHit = true
			return
		}
	}
	for j := 0; j < 3; j++ {
		v, ok := it.Next()
		st := step{Ok: ok}
		if ok {
			st.Val = kernel.Enc(v)
		} else if v != nil {
			st.Val = "nonnil:" + kernel.Enc(v)
		}
		o.extra = append(o.extra, st)
	}
	// Runs started after this one has finished must neither revive it nor be disturbed by it.
	by1, by2 := bystanders[0].code.Run(bystanders[0].in), bystanders[1].code.RunWithContext(context.Background(), bystanders[1].in)
	var got1, got2 []string
	step := func(it gojq.Iter, got *[]string) {
		if v, ok := it.Next(); ok {
			*got = append(*got, kernel.Enc(v))
		} else {
			*got = append(*got, "<end>")
		}
	}
	step(by1, &got1)
	step(by2, &got2)
	for j := 0; j < 2; j++ {
		v, ok := it.Next()
		st := step0(v, ok)
		o.extra = append(o.extra, st)
		step(by1, &got1)
		step(by2, &got2)
	}
	step(by1, &got1)
	step(by2, &got2)
	if g := strings.Join(got1, " "); g != bystanders[0].want {
		o.bystander = fmt.Sprintf("a run of `%s` started after this run had finished emitted %s, alone it emits %s", bystanders[0].src, g, bystanders[0].want)
	} else if g := strings.Join(got2, " "); g != bystanders[1].want {
		o.bystander = fmt.Sprintf("a run of `%s` started after this run had finished emitted %s, alone it emits %s", bystanders[1].src, g, bystanders[1].want)
	}
	return
}

func step0(v any, ok bool) step {
	st := step{Ok: ok}
	if ok {
		st.Val = kernel.Enc(v)
	} else if v != nil {
		st.Val = "nonnil:" + kernel.Enc(v)
	}
	return st
}

type bystander struct {
	src  string
	in   any
	code *gojq.Code
	want string
}

var bystanders = func() []bystander {
	bs := []bystander{{src: "10, 11, 12", in: nil, want: "i10 i11 i12 <end>"}, {src: ".[] | [., 1]", in: []any{1, 2}, want: "[i1,i1] [i2,i1] <end> <end>"}}
	for i := range bs {
		q, err := gojq.Parse(bs[i].src)
		if err != nil {
			panic(err)
		}
		if bs[i].code, err = gojq.Compile(q); err != nil {
			panic(err)
		}
	}
	return bs
}()

// runBackground drains code.Run (no context) up to maxOut outputs.
func runBackground(code *gojq.Code, input any, vars []any, maxOut int) (o outcome) {
	defer func() {
		if r := recover(); r != nil {
			o.panicked = fmt.Sprintf("%v", r)
		}
	}()
	it := code.Run(input, vars...)
	for len(o.steps) < maxOut {
		v, ok := it.Next()
		if !ok {
			o.exhausted = true
			return
		}
		st := step{Ok: true}
		if e, isErr := v.(error); isErr {
			st.IsErr, st.Val = true, kernel.EncErr(e)
		} else {
			st.Val = kernel.Enc(v)
		}
		o.steps = append(o.steps, st)
	}
	return
}

func newWorld(d *Data) *world {
	w := &world{ctx: simctx.New()}
	w.ctx.Budget = d.Budget
	w.ctx.OnPoll = func(c *simctx.Ctx) {}
	return w
}

type prepared struct {
	d     *Data
	q     *gojq.Query
	code  *gojq.Code
	w     *world // world bound to the compiled callbacks (reset per run)
	ref   outcome
	skip  string
	input func() any
	vars  func() []any
}

// The callbacks registered at compile time capture one *world; each run
// resets it in place.
func (p *prepared) reset(closePoll, closeTick int) {
	*p.w = world{ctx: simctx.New(), cancelBeforeCall: -1}
	p.w.ctx.Budget = p.d.Budget
	p.w.ctx.CloseAt = closePoll
	p.w.closeTick = closeTick
	p.w.tickCap = p.d.Budget
	// a deadline instead of a cancellation for every third instant: Next must return what ctx.Err() reports
	if k := max(closePoll, closeTick); k%3 == 2 {
		p.w.ctx.ErrValue = context.DeadlineExceeded
	}
	p.w.ctx.MaxAfterClose = 256
	p.w.ctx.Overrun = func() { panic(abort{"overrun"}) }
	// after the fault, a correct interpreter polls at most a handful of
	// times (one per later Next call at most); a run that keeps polling a
	// closed channel is aborted instead of being waited for.
}

func prepare(d *Data, maxOut int) (*prepared, *kernel.Violation) {
	p := &prepared{d: d, w: &world{ctx: simctx.New(), cancelBeforeCall: -1}}
	q, err := gojq.Parse(d.Src)
	if err != nil {
		p.skip = "parse error"
		return p, nil
	}
	p.q = q
	in, err := d.Input.Build()
	if err != nil {
		p.skip = "bad input"
		return p, nil
	}
	_ = in
	p.input = func() any { return kernel.MustBuild(d.Input) }
	p.vars = func() []any {
		vs := make([]any, len(d.VarVals))
		for i, s := range d.VarVals {
			vs[i] = kernel.MustBuild(s)
		}
		return vs
	}
	var cerr error
	func() {
		defer func() {
			if r := recover(); r != nil {
				cerr = fmt.Errorf("compile panic: %v", r)
			}
		}()
		p.code, cerr = gojq.Compile(q, p.w.options(d)...)
	}()
	if cerr != nil {
		if d.ViaQuery && len(d.VarNames) == 0 && d.Mode != "B" {
			// Query.RunWithContext turns the compile error into a one-shot iterator.
			p.code = nil
		} else {
			p.skip = "compile error"
			return p, nil
		}
	}
	p.reset(0, 0)
	p.ref = run(d, q, p.code, p.w, p.input(), p.vars(), maxOut)
	if v := protocol(d, &p.ref, "reference run"); v != nil {
		return p, v
	}
	// An iterator that can still be advanced after an error must also get somewhere: a program
	// without any loop construct that fills the output cap with one and the same error value, call
	// after call, never reaches its end.
	if n := len(p.ref.steps); p.ref.outCapHit && n >= 60 && !loopy.MatchString(d.Src) {
		same := true
		for _, st := range p.ref.steps[n-50:] {
			same = same && st.IsErr && st.Val == p.ref.steps[n-1].Val
		}
		if same {
			return p, viol(d, "error-repeats-forever", "reference run: after an error value the iterator returns the same error at every further call (%d outputs, the last 50 identical: %s) and never ends, although the program has no loop", n, kernel.Short(p.ref.steps[n-1].Val))
		}
	}
	if p.code == nil {
		// compile error through Query.RunWithContext: a one-shot iterator
		if len(p.ref.steps) != 1 || !p.ref.steps[0].IsErr || !p.ref.exhausted {
			return p, viol(d, "one-shot", "Query.RunWithContext on a query that does not compile must emit the error once and then be exhausted; got %d outputs, exhausted=%v", len(p.ref.steps), p.ref.exhausted)
		}
		return p, nil
	}
	// wrong number of variable values: one-shot error iterators
	if !d.ViaQuery {
		for _, delta := range []int{-1, 1} {
			vs := p.vars()
			if delta < 0 {
				if len(vs) == 0 {
					continue
				}
				vs = vs[:len(vs)-1]
			} else {
				vs = append(vs, nil)
			}
			p.reset(0, 0)
			o := run(d, q, p.code, p.w, p.input(), vs, maxOut)
			if v := protocol(d, &o, "run with a wrong number of variable values"); v != nil {
				return p, v
			}
			if len(o.steps) != 1 || !o.steps[0].IsErr || !o.exhausted {
				return p, viol(d, "one-shot", "RunWithContext with %d variable values for %d variables must emit one error and then be exhausted; got %d outputs, exhausted=%v", len(vs), len(d.VarNames), len(o.steps), o.exhausted)
			}
		}
	}
	// The uncancelled run must not depend on a context being present at all: for programs that
	// finish, Run (context.Background, no polls) yields the same sequence.
	if p.code != nil && !d.ViaQuery && p.ref.exhausted && !p.ref.budgetHit && !p.ref.outCapHit && d.Mode != "B" {
		bg := runBackground(p.code, p.input(), p.vars(), len(p.ref.steps)+8)
		if bg.panicked != "" {
			return p, viol(d, "panic", "Run (background context): panic inside gojq: %s", bg.panicked)
		}
		if len(bg.steps) != len(p.ref.steps) || bg.exhausted != p.ref.exhausted {
			return p, viol(d, "ctx-changes-semantics", "Run yields %d outputs (exhausted=%v), RunWithContext with a context that is never cancelled yields %d (exhausted=%v)", len(bg.steps), bg.exhausted, len(p.ref.steps), p.ref.exhausted)
		}
		for i := range bg.steps {
			if bg.steps[i].Val != p.ref.steps[i].Val {
				return p, viol(d, "ctx-changes-semantics", "output #%d: Run yields %s, RunWithContext with a context that is never cancelled yields %s", i, kernel.Short(bg.steps[i].Val), kernel.Short(p.ref.steps[i].Val))
			}
		}
	}
	// determinism guard: the same build on the same input must repeat itself,
	// otherwise prefix comparison would be meaningless for this program.
	p.reset(0, 0)
	again := run(d, q, p.code, p.w, p.input(), p.vars(), maxOut)
	if !sameOutcome(&p.ref, &again) {
		p.skip = "nondeterministic reference"
	}
	return p, nil
}

func sameOutcome(a, b *outcome) bool {
	if len(a.steps) != len(b.steps) || a.exhausted != b.exhausted || a.polls != b.polls || a.ticks != b.ticks {
		return false
	}
	for i := range a.steps {
		if a.steps[i] != b.steps[i] {
			return false
		}
	}
	return true
}

func viol(d *Data, class, format string, args ...any) *kernel.Violation {
	return &kernel.Violation{Property: ID, Class: class, Case: kernel.NewCase(ID, d.Mode, d),
		Detail: fmt.Sprintf("program: %s\ninput: %s\nmode %s k=%d tick_kind=%s via_query=%v\n", d.Src, d.Input.JSON, d.Mode, d.K, d.TickKind, d.ViaQuery) + fmt.Sprintf(format, args...)}
}

// protocol checks the iterator contract that holds with or without
// cancellation: no panic; after (nil,false) three more calls return
// (nil,false).
func protocol(d *Data, o *outcome, what string) *kernel.Violation {
	if o.panicked != "" {
		return viol(d, "panic", "%s: panic inside gojq after %d outputs: %s", what, len(o.steps), o.panicked)
	}
	if o.aborted == "overrun" {
		return viol(d, "not-prompt", "%s: the interpreter polled Done() more than 256 times after the channel had been closed without returning the context's error", what)
	}
	if o.aborted != "" {
		return nil // judged by the caller
	}
	for j, st := range o.extra {
		if st.Ok || st.Val != "" {
			return viol(d, "not-terminal", "%s: after Next returned (nil,false), call %d returned ok=%v %s (calls 4 and 5 are made after two other runs have been started and advanced)", what, j+1, st.Ok, kernel.Short(st.Val))
		}
	}
	if o.bystander != "" {
		return viol(d, "bystander-disturbed", "%s: %s", what, o.bystander)
	}
	return nil
}

// check judges one cancelled run against the reference.
func check(p *prepared, d *Data, maxOut int) *kernel.Violation {
	closePoll, closeTick := 0, 0
	switch d.Mode {
	case "A":
		closePoll = d.K
	case "B":
		closeTick = d.K
	}
	p.reset(closePoll, closeTick)
	if d.Between {
		// cancellation between two Next calls: whatever the interpreter has left to do for call number
		// K (a value, an error, finding out that nothing is left) is its next step, and that step
		// returns the context's error
		p.w.ctx.CloseAt = 0
		p.w.cancelBeforeCall = d.K
		if d.K%3 == 2 {
			p.w.ctx.ErrValue = context.DeadlineExceeded
		}
	} else if d.K == 0 && d.Mode != "P" {
		p.w.ctx.Cancel() // cancelled before RunWithContext
	}
	o := run(d, p.q, p.code, p.w, p.input(), p.vars(), maxOut)
	if v := protocol(d, &o, "cancelled run"); v != nil {
		return v
	}
	ref := &p.ref
	if o.aborted == "ticks keep happening after cancellation" {
		return viol(d, "not-prompt", "the context was cancelled inside tick %d, yet %d further callbacks completed (bound 0): the interpreter did not notice the cancellation at its next step", d.K, p.w.ticksLate)
	}
	if o.aborted != "" {
		return nil
	}
	if p.w.ticksLate > 0 {
		return viol(d, "not-prompt", "the context was cancelled inside tick %d, yet %d further callback(s) completed before Next returned", d.K, p.w.ticksLate)
	}
	landed := p.w.ctx.Closed && p.w.ctx.ByFault
	// 1. prefix
	n := len(o.steps)
	vals := o.steps
	if landed && n > 0 && vals[n-1].Val == "CTXERR" {
		vals = vals[:n-1]
	}
	for i, st := range vals {
		if i >= len(ref.steps) {
			if ref.outCapHit || ref.budgetHit {
				break
			}
			return viol(d, "prefix", "cancelled run emitted output #%d %s but the uncancelled run has only %d outputs", i, kernel.Short(st.Val), len(ref.steps))
		}
		if st.Val != ref.steps[i].Val {
			if st.Val == "CTXERR" {
				return viol(d, "ctxerr-twice", "the context error was emitted as output #%d and again later", i)
			}
			if ref.steps[i].Val == "CTXERR" {
				break // the reference itself ended at its step cap here
			}
			return viol(d, "prefix", "output #%d differs: cancelled run %s, uncancelled run %s", i, kernel.Short(st.Val), kernel.Short(ref.steps[i].Val))
		}
	}
	if !landed {
		// the fault did not land (run ended first): must equal the reference entirely
		if !ref.budgetHit && !ref.outCapHit && !o.budgetHit && !o.outCapHit && (len(o.steps) != len(ref.steps) || o.exhausted != ref.exhausted) {
			return viol(d, "prefix", "cancellation did not land, yet the run has %d outputs (exhausted=%v) against %d (exhausted=%v)", len(o.steps), o.exhausted, len(ref.steps), ref.exhausted)
		}
		return nil
	}
	// 2. the Next call during which the channel was closed returns ctx.Err()
	if o.outCapHit {
		return nil
	}
	if d.K == 0 && !d.Between {
		o.closedIn = 0
	}
	if o.closedIn < 0 {
		return nil
	}
	if n <= o.closedIn {
		return viol(d, "no-ctx-error", "the channel was closed during Next call #%d but that call returned (nil,false) instead of the context's error", o.closedIn)
	}
	if got := o.steps[o.closedIn]; got.Val != "CTXERR" {
		return viol(d, "no-ctx-error", "the channel was closed during Next call #%d but that call returned %s instead of the context's error", o.closedIn, kernel.Short(got.Val))
	}
	// 3. afterwards exhausted
	if n != o.closedIn+1 {
		return viol(d, "not-exhausted", "after returning the context's error the iterator produced %d more output(s), first %s", n-o.closedIn-1, kernel.Short(o.steps[o.closedIn+1].Val))
	}
	if !o.exhausted {
		return viol(d, "not-exhausted", "after returning the context's error the iterator did not report exhaustion")
	}
	if p.w.ctx.PollsAfterClose > 64 {
		return viol(d, "not-prompt", "%d polls of Done() after the channel was closed", p.w.ctx.PollsAfterClose)
	}
	return nil
}

func (Prop) Exec(c kernel.Case) *kernel.Violation {
	var d Data
	if err := c.Decode(&d); err != nil {
		return &kernel.Violation{Property: ID, Class: "bad-case", Detail: err.Error(), Case: c}
	}
	maxOut := 4000
	p, v := prepare(&d, maxOut)
	if v != nil {
		return v
	}
	if p.skip != "" || d.Mode == "P" || p.code == nil {
		return nil
	}
	if d.KEnd > 0 {
		if d.Mode == "A" {
			d.K = p.ref.polls + d.KEnd
		} else {
			d.K = p.ref.ticks + d.KEnd
		}
	}
	return check(p, &d, maxOut)
}

// instants returns the cancel instants to try for a prepared program.
func instants(p *prepared, tr tiers, r *kernel.Rand) []int {
	d := p.d
	var n, bound, sample int
	if d.Mode == "A" {
		n, bound, sample = p.ref.polls, tr.K, tr.SampleK
	} else {
		n, bound, sample = p.ref.ticks, tr.T, tr.SampleT
	}
	ks := []int{0}
	for k := 1; k <= n && k <= bound; k++ {
		ks = append(ks, k)
	}
	if n > bound {
		seen := map[int]bool{}
		// bias towards the steps around each emission
		for _, st := range p.ref.steps {
			at := st.Polls
			if d.Mode == "B" {
				at = st.Ticks
			}
			for _, k := range []int{at - 1, at, at + 1, at + 2} {
				if k > bound && k <= n+1 && !seen[k] && len(seen) < sample {
					seen[k] = true
				}
			}
		}
		for len(seen) < sample {
			k := r.Range(bound+1, n+1)
			if seen[k] {
				if n+1-bound <= len(seen) {
					break
				}
				continue
			}
			seen[k] = true
		}
		var extra []int
		for k := range seen {
			extra = append(extra, k)
		}
		sort.Ints(extra)
		ks = append(ks, extra...)
	} else {
		// past the end (K = N + j, stored as k_end=j): the run is over before the fault;
		// only polls made by Next calls on the exhausted iterator can reach these
		ks = append(ks, -1, -2, -3)
	}
	return ks
}

func (Prop) RunUnit(env *kernel.Env, unit int) {
	tr := tier(env.Tier)
	items := allItems(tr, env.Seed)
	lo, hi := unit*unitSize, (unit+1)*unitSize
	if hi > len(items) {
		hi = len(items)
	}
	out := env.Out
	for idx := lo; idx < hi; idx++ {
		d := items[idx].d
		out.Mark(kernel.NewCase(ID, d.Mode, d))
		r := kernel.NewRand(kernel.Mix(env.Seed, 7, 3, uint64(idx)))
		p, v := prepare(&d, tr.MaxOut)
		out.Inc("programs")
		if v != nil {
			out.Violate(v)
			continue
		}
		if p.skip != "" {
			out.Inc("skipped_" + strings.ReplaceAll(p.skip, " ", "_"))
			continue
		}
		if p.code == nil {
			out.Inc("one_shot_compile_error_iterators")
			continue
		}
		out.Inc("programs_run_mode_" + d.Mode)
		out.Add("sim_polls", int64(p.ref.polls))
		if p.ref.budgetHit {
			out.Inc("reference_hit_step_cap")
		}
		ks := instants(p, tr, r)
		emitAt := map[int]bool{}
		for _, st := range p.ref.steps {
			emitAt[st.Polls] = true
		}
		for _, k := range ks {
			dk := d
			dk.K = k
			if k < 0 {
				dk.KEnd = -k
				dk.K = p.ref.polls - k
				if d.Mode == "B" {
					dk.K = p.ref.ticks - k
				}
			}
			v := check(p, &dk, tr.MaxOut)
			out.Inc("evaluations")
			out.Add("sim_polls", int64(p.w.ctx.Polls))
			out.Add("sim_ticks", int64(p.w.ticks))
			landed := p.w.ctx.Closed && p.w.ctx.ByFault
			if landed {
				out.Inc("fault_landed_mode_" + d.Mode)
				if k > 0 {
					out.DistinctH("nontrivial", kernel.Mix(kernel.Hash64(d.Src+"\x00"+d.Input.JSON+d.Mode+d.TickKind), uint64(k)))
				}
				if d.Mode == "A" && emitAt[k] {
					out.Inc("cancel_on_emitting_step")
				}
			} else {
				out.Inc("fault_not_landed")
			}
			if k == 0 {
				out.Inc("cancelled_before_run")
			}
			if v != nil {
				out.Violate(v)
				break
			}
			out.Touch()
		}
		if d.Mode == "A" && !p.ref.budgetHit && !p.ref.outCapHit && p.ref.exhausted {
			// cancellation between two Next calls, before every call up to the one that would report
			// exhaustion
			for j := 0; j <= len(p.ref.steps) && j <= 24; j++ {
				dk := d
				dk.K, dk.Between = j, true
				v := check(p, &dk, tr.MaxOut)
				out.Inc("evaluations")
				out.Inc("cancel_between_next_calls")
				if p.w.ctx.Closed && p.w.ctx.ByFault {
					out.DistinctH("nontrivial", kernel.Mix(kernel.Hash64(d.Src+"\x00"+d.Input.JSON+"between"), uint64(j)))
				}
				if v != nil {
					out.Violate(v)
					break
				}
				out.Touch()
			}
		}
		if out.WantSample() && idx%3 == 0 {
			out.Sample(map[string]any{"program": d.Src, "input": d.Input.JSON, "mode": d.Mode, "tick_kind": d.TickKind,
				"reference_polls": p.ref.polls, "reference_ticks": p.ref.ticks, "reference_outputs": len(p.ref.steps),
				"cancel_instants_tried": len(ks)})
		}
	}
}

func (Prop) Shrink(c kernel.Case) []kernel.Case {
	var d Data
	if c.Decode(&d) != nil {
		return nil
	}
	var out []kernel.Case
	add := func(e Data) { out = append(out, kernel.NewCase(ID, e.Mode, e)) }
	// earlier cancel instants first
	for _, k := range []int{1, 2, d.K / 2, d.K - 1} {
		if d.KEnd == 0 && k >= 0 && k < d.K {
			e := d
			e.K = k
			add(e)
		}
	}
	if d.ViaQuery {
		e := d
		e.ViaQuery = false
		add(e)
	}
	for _, src := range workload.ShrinkProgram(d.Src) {
		e := d
		e.Src = src
		add(e)
	}
	for _, in := range workload.ShrinkJSON(d.Input.JSON) {
		e := d
		e.Input.JSON = in
		add(e)
	}
	return out
}

func (Prop) Describe(ev *kernel.Evidence) {
	st := ev.Coverage["stats"].(map[string]int64)
	sets := ev.Coverage["distinct_sets"].(map[string]int)
	ev.Coverage["evaluations"] = st["evaluations"]
	ev.Coverage["distinct_nontrivial"] = sets["nontrivial"]
	ev.Coverage["rule"] = "one evaluation = one cancelled run of (program, input, cancel instant) compared with the uncancelled run of the same build; " +
		"instants: every poll k=0..N of ctx.Done() up to the tier bound (mode A) / every callback tick t=0..T (mode B), sampled beyond the bound with bias to the steps around each emission; " +
		"non-trivial and distinct = distinct (program, input, mode, k) with k>0 where the cancellation actually landed strictly inside the run"
	ev.Coverage["simulated_time"] = map[string]any{"vm_steps_polls": st["sim_polls"], "callback_ticks": st["sim_ticks"]}
	ev.Coverage["fault_kinds"] = map[string]any{
		"cancel_at_poll_k":                st["fault_landed_mode_A"],
		"cancel_inside_callback":          st["fault_landed_mode_B"],
		"cancel_before_run":               st["cancelled_before_run"],
		"cancel_on_emitting_step":         st["cancel_on_emitting_step"],
		"fault_drawn_but_run_ended_first": st["fault_not_landed"],
	}
	ev.Coverage["components"] = map[string]string{
		"real":      "gojq lexer, parser, compiler, VM, natives (from /repo working tree)",
		"simulated": "context.Context (Done/Err), Go callbacks registered with WithFunction/WithIterFunction/WithInputIter",
		"absent":    "clock, network, disk",
	}
	ev.Assumptions = []string{
		"mode A places the fault at the interpreter's own polls of Done(); if an implementation fetched Done() once, the fault would not land (reported as fault_drawn_but_run_ended_first) and mode B still applies",
		"programs whose uncancelled run is not repeatable on the same build (two reference runs differ) are skipped and counted",
		"the reference run of an infinite program is cut at a step cap; comparisons use the common prefix",
	}
}

// LogUnit prints the deterministic event log of a unit.
func (Prop) LogUnit(t string, seed uint64, unit int) string {
	tr := tier(t)
	items := allItems(tr, seed)
	lo, hi := unit*unitSize, (unit+1)*unitSize
	if hi > len(items) {
		hi = len(items)
	}
	var sb strings.Builder
	for idx := lo; idx < hi; idx++ {
		d := items[idx].d
		r := kernel.NewRand(kernel.Mix(seed, 7, 3, uint64(idx)))
		p, v := prepare(&d, tr.MaxOut)
		fmt.Fprintf(&sb, "item %d %q mode=%s skip=%q v=%v\n", idx, d.Src, d.Mode, p.skip, v != nil)
		if v != nil || p.skip != "" {
			continue
		}
		for _, st := range p.ref.steps {
			fmt.Fprintf(&sb, " ref %d/%d %s\n", st.Polls, st.Ticks, kernel.Short(st.Val))
		}
		for _, k := range instants(p, tr, r) {
			dk := d
			dk.K = k
			if k < 0 {
				dk.KEnd = -k
				dk.K = p.ref.polls - k
				if d.Mode == "B" {
					dk.K = p.ref.ticks - k
				}
			}
			v := check(p, &dk, tr.MaxOut)
			fmt.Fprintf(&sb, " k=%d polls=%d ticks=%d closed=%v v=%v\n", k, p.w.ctx.Polls, p.w.ticks, p.w.ctx.Closed, v != nil)
		}
	}
	return sb.String()
}
