// Package c06 decides C06 (one Query/Code run from many goroutines at once)
// by seeded search over schedules: worker goroutines run real gojq code but
// only inside windows granted by the gate scheduler (seams/gate), which parks
// them at the interpreter's per-instruction poll of the simulated context.
package c06

import (
	"fmt"
	"os"
	"regexp"
	"sort"
	"strings"

	"github.com/itchyny/gojq"

	"verif/sim/kernel"
	"verif/sim/seams/gate"
	"verif/sim/seams/simctx"
	"verif/sim/workload"
)

const ID = "C06"

type Prop struct{}

func (Prop) ID() string    { return ID }
func (Prop) Level() string { return "exploration" }

type ProgSpec struct {
	Src      string             `json:"src"`
	VarNames []string           `json:"var_names,omitempty"`
	VarVals  []kernel.ValueSpec `json:"var_vals,omitempty"`
}

type WorkerSpec struct {
	Prog  int `json:"prog"`
	Input int `json:"input"`
	Reps  int `json:"reps"`
}

type Data struct {
	Progs      []ProgSpec         `json:"progs"`
	Inputs     []kernel.ValueSpec `json:"inputs"`
	Workers    []WorkerSpec       `json:"workers"`
	ShareInput bool               `json:"share_input"` // workers naming the same input index share one Go object
	ViaQuery   bool               `json:"via_query,omitempty"`
	Budget     int                `json:"budget"`
	Policy     string             `json:"policy"`
	PolicySeed uint64             `json:"policy_seed"`
	SweepI     int                `json:"sweep_i,omitempty"`
	SweepJ     int                `json:"sweep_j,omitempty"`
	Phases     []gate.Phase       `json:"phases,omitempty"` // explicit decision list (overrides the policy)
	Origin     string             `json:"origin,omitempty"`
}

const maxOut = 400

type tiers struct {
	Runs, Budget, MaxPhases int
	Sweeps                  int
}

func tier(t string) tiers {
	if t == "thorough" {
		return tiers{Runs: 150000, Budget: 3000, MaxPhases: 600, Sweeps: 1000}
	}
	return tiers{Runs: 4000, Budget: 1200, MaxPhases: 300, Sweeps: 24}
}

const unitSize = 10

func (Prop) Units(t string, seed uint64) int {
	tr := tier(t)
	return (tr.Runs+unitSize-1)/unitSize + tr.Sweeps + systematicUnits(seed)
}

// systematic part: every pool program (directed, finite, corpus) once under
// lock-stepped workers on one shared input, so that no listed program depends
// on being drawn by the seeded part.
func systematicUnits(seed uint64) int {
	return (len(getPool(seed).items) + unitSize - 1) / unitSize
}

func systematicCase(seed uint64, idx int, tr tiers, variant int) Data {
	it := getPool(seed).items[idx]
	d := Data{Progs: []ProgSpec{it.p}, Inputs: []kernel.ValueSpec{it.in}, ShareInput: true, Budget: tr.Budget,
		Policy: []string{"mirror", "burst", "pairs"}[variant%3], PolicySeed: kernel.Mix(seed, 6, 3, uint64(idx), uint64(variant)),
		Workers: []WorkerSpec{{0, 0, 1}, {0, 0, 1}, {0, 0, 2}}, Origin: "systematic"}
	return d
}

func (Prop) StallSeconds(tier string) int { return 120 }

// ChildHook: children are the race-enabled binary.
func (Prop) ChildEnv(tier string) []string {
	return []string{
		"GORACE=halt_on_error=0 exitcode=0 log_path=$SCRATCH/race",
		"VERIF_RACE_LOG=$SCRATCH/race",
		"GOMAXPROCS=4",
	}
}

func (Prop) Binary(vdir string) string {
	if b := os.Getenv("VERIF_RACE_BIN"); b != "" {
		return b
	}
	return vdir + "/bin/verifsim-race"
}

func (Prop) PostChild(exit int, stderr string, mark *kernel.Case, scratch string) *kernel.Violation {
	return nil
}

// ---- workload -----------------------------------------------------------------

// Directed programs for shared-state hazards: deletes/updates on shared
// inputs, literal containers folded into the code, regex cache, sort/group.
var directed = []struct{ Src, In string }{
	{`del(.a.q)`, `{"a":{"q":1,"r":{"s":[1,2]},"t":{"u":{}}},"b":[1,{"c":2}]}`},
	{`del(.a.q, .b[0])`, `{"a":{"q":1,"r":{"s":[1,2]}},"b":[1,{"c":2}]}`},
	{`del(.b[1].c)`, `{"a":{"q":1,"r":{"s":[1,2]}},"b":[1,{"c":2,"d":{"e":1}}]}`},
	{`delpaths([["a","q"]])`, `{"a":{"q":1,"r":{"s":[1,2]}},"b":[1,{"c":2}]}`},
	{`del(.[0].a)`, `[{"a":1,"b":{"c":{}}},{"d":[{"e":1}]}]`},
	{`{"a":{"q":1,"r":{"s":{"t":1}}},"b":[{"c":{"d":1}}]} | del(.a.q)`, `null`},
	{`[{"a":1,"b":{"c":{}}},{"d":[{"e":1}]}] | del(.[0].a)`, `null`},
	{`{"a":{"b":{"c":1}}} | .a.b.c = 2`, `null`},
	{`{"a":{"b":{"c":1}}} | .a.b.c |= .+1`, `null`},
	{`{"a":[3,1,2]} | .a |= sort`, `null`},
	{`[3,1,2] | sort`, `null`},
	{`[{"k":2},{"k":1}] | sort_by(.k)`, `null`},
	{`{"b":1,"a":{"d":1,"c":2}} | keys, (.a | keys), to_entries`, `null`},
	{`{"a":[1,2,3]} | .a += [4]`, `null`},
	{`[[1,2],[3]] | add`, `null`},
	{`[[1,2],[3]] | flatten`, `null`},
	{`{"a":{"x":1}} * {"a":{"y":2}}`, `null`},
	{`{"a":1} + {"b":2}`, `null`},
	{`.a.b.c = 1`, `{"a":{"b":{"c":0,"d":{"e":1}}},"f":[1,2]}`},
	{`.a.b.c |= . + 1`, `{"a":{"b":{"c":0,"d":{"e":1}}},"f":[1,2]}`},
	{`.f[1] = 5`, `{"a":{"b":{"c":0}},"f":[1,2]}`},
	{`.f += [3]`, `{"a":{"b":{"c":0}},"f":[1,2]}`},
	{`.f |= map(. * 2)`, `{"a":{"b":{"c":0}},"f":[1,2]}`},
	{`.[1:] = ["x"]`, `[1,2,3,4]`},
	{`.[1:3] |= reverse`, `[1,2,3,4]`},
	{`del(.[1:3])`, `[1,2,3,4]`},
	{`sort`, `[3,1,2,[2,1],{"b":1,"a":2}]`},
	{`sort_by(.k)`, `[{"k":2,"v":[1]},{"k":1,"v":[2]},{"k":2,"v":[0]}]`},
	{`group_by(.k)`, `[{"k":2,"v":[1]},{"k":1,"v":[2]},{"k":2,"v":[0]}]`},
	{`unique_by(.k)`, `[{"k":2,"v":[1]},{"k":1,"v":[2]},{"k":2,"v":[0]}]`},
	{`min_by(.k), max_by(.k)`, `[{"k":2,"v":[1]},{"k":1,"v":[2]},{"k":2,"v":[0]}]`},
	{`unique`, `[3,1,2,3,[1],[1]]`},
	{`reverse`, `[3,1,2,[2,1]]`},
	{`flatten`, `[3,[1,[2]],[[2,1]]]`},
	{`add`, `[[1],[2,3],[4]]`},
	{`add`, `[{"a":[1]},{"b":2},{"a":[3]}]`},
	{`.[0] + .[1]`, `[[1,2],[3,4]]`},
	{`.[0] * .[1]`, `[{"a":{"x":[1]}},{"a":{"y":2}}]`},
	{`to_entries`, `{"b":{"x":1},"a":[1,2]}`},
	{`with_entries(.value |= .)`, `{"b":{"x":1},"a":[1,2]}`},
	{`map_values(.)`, `{"b":{"x":1},"a":[1,2]}`},
	{`walk(.)`, `{"b":{"x":1},"a":[1,[2]]}`},
	{`walk(if type == "array" then sort else . end)`, `{"b":{"x":[2,1]},"a":[3,[2,1]]}`},
	{`[tostream] | fromstream(.[])`, `{"b":{"x":1},"a":[1,[2]]}`},
	{`tojson, keys, ([.[]] | length)`, `{"b":{"x":1},"a":[1,[2]],"c":"s"}`},
	{`[paths]`, `{"b":{"x":1},"a":[1,[2]]}`},
	{`[..]`, `{"b":{"x":1},"a":[1,[2]]}`},
	{`.. |= .`, `{"b":{"x":1},"a":[1,[2]]}`},
	{`.a[1:] + .a[:1]`, `{"a":[1,2,3]}`},
	{`.a[1:] | .[0] = 9`, `{"a":[1,2,3]}`},
	{`[.a[]] | .[0] = 9`, `{"a":[1,2,3]}`},
	{`. as $x | [$x, $x] | .[0].a = 1`, `{"a":0,"b":{"c":1}}`},
	{`reduce .[] as $x ([]; . + [$x])`, `[1,2,3,[4]]`},
	{`reduce .[] as $x ({}; .[$x|tostring] = $x)`, `[1,2,3]`},
	{`foreach .[] as $x ([]; . + [$x])`, `[1,2,3]`},
	{`[limit(3; repeat(.))]`, `{"a":[1]}`},
	{`test("a+b")`, `"xaab"`},
	{`[match("(a+)(b)?"; "g") | .captures | map(.string)]`, `"aab a ab"`},
	{`gsub("(?<x>[ab])"; "<\(.x)>")`, `"abcab"`},
	{`sub("^\\s+"; "")`, `"  x"`},
	{`[scan("[a-z]+")]`, `"ab cd ef"`},
	{`split(", *"; null)`, `"a, b,c"`},
	{`capture("(?<y>\\d+)-(?<m>\\d+)")`, `"2020-10"`},
	{`[splits("-")]`, `"a-b-c"`},
	{`ascii_downcase | test("abc"; "i")`, `"ABC"`},
	{`test("x"; "gi"), test("X"), test("a.c"; "s")`, `"axc"`},
	{`[.[] | test("^[0-9]+$")]`, `["12","a","3"]`},
	{`builtins | length`, `null`},
	{`[builtins | .[:3]]`, `null`},
	{`tojson | fromjson`, `{"a":[1,2.5,"x",null,true],"b":{"c":1e100}}`},
	{`@json, @text, @csv?, @base64`, `[1,"a"]`},
	{`input_line_number, $__loc__, ($ENV|length), (env|length)`, `null`},
	{`getpath(["a","b"]), paths, leaf_paths`, `{"a":{"b":[1]}}`},
	{`setpath(["a","b"]; 1)`, `{"a":{"b":[1],"c":{"d":1}}}`},
	{`setpath(["a","b",0]; 1)`, `{"a":{"b":[0],"c":{"d":1}}}`},
	{`pick(.a.b)`, `{"a":{"b":[1],"c":{"d":1}}}`},
	{`to_entries | from_entries`, `{"a":{"b":[1]},"c":2}`},
	{`transpose`, `[[1,2],[3,4]]`},
	{`combinations | add`, `[[1,2],[3,4]]`},
	{`indices(1), index(1), inside([1,2,1,3]), contains([1])`, `[1,2,1]`},
	{`ltrimstr("a"), rtrimstr("c"), ascii_upcase, explode, (explode|implode)`, `"abc"`},
	{`tostring, tonumber?, length, utf8bytelength?`, `"123"`},
	{`. + 1, . * 2, . / 3, . % 4, -(.), (. | floor), sqrt, pow(.; 2), log, exp`, `7`},
	{`. + 1, . * 2, . - 1, . % 7, -(.)`, `100000000000000000000`},
	{`map(. + 1) | add`, `[1,100000000000000000000,2.5]`},
	{`min, max, (sort | .[0]), unique`, `[3,100000000000000000000,1.5,3]`},
	{`def f: if . < 20 then .+1 | f else . end; f`, `0`},
	{`def f(g): [g, g]; f(.a)`, `{"a":[1]}`},
	{`[.[] | select(.a > 1)]`, `[{"a":1},{"a":2},{"a":3}]`},
	{`.[] as {a: $x} | {x: $x}`, `[{"a":1},{"a":[2]}]`},
	{`.[] as [$x] ?// $x | [$x]`, `[[1],2]`},
	{`try error({a:.}) catch .a`, `{"b":[1]}`},
	{`[.[] | (.a)?]`, `[{"a":1},2]`},
	{`label $l | .[] | if . > 2 then break $l else . end`, `[1,2,3,4]`},
	{`first(.[] | select(. > 1)), last(.[]), nth(1; .[]), isempty(.[])`, `[1,2,3]`},
	{`[limit(2; .[])], [.[:2][]], any, all`, `[true,false,true]`},
	{`"\(.a) and \(.b | tojson)"`, `{"a":1,"b":[2]}`},
	{`{a, b: .b[0], (.a|tostring): .b}`, `{"a":1,"b":[2]}`},
	{`{"x":[1,{"y":[2]}]} as $c | $c.x[1].y[0] = 3 | ., $c`, `null`},
	{`[1,[2,[3]]] as $c | ($c | flatten), ($c | .[1][1][0] = 9), $c`, `null`},
	{`$v | del(.a.q), .a`, `null`},
	{`$v.a.r.s += [3]`, `null`},
	{`. as $in | $v | .a.q = $in`, `{"z":[1]}`},
}

var sharedVar = kernel.ValueSpec{JSON: `{"a":{"q":1,"r":{"s":[1,2]},"t":{"u":{}}},"b":[1,{"c":2}]}`}

type pool struct {
	items     []poolItem
	nDirected int // items[:nDirected]: directed programs, aliasing and big-operand families
}

type poolItem struct {
	p  ProgSpec
	in kernel.ValueSpec
}

func init() {
	for _, a := range workload.Aliasing {
		directed = append(directed, struct{ Src, In string }{a.Src, a.In})
	}
	for _, a := range workload.BigNumbers {
		directed = append(directed, struct{ Src, In string }{a.Src, a.In})
	}
	for i, a := range workload.Chains {
		if i%5 == 0 { // a fifth of the chains; C05 runs them all
			directed = append(directed, struct{ Src, In string }{a.Src, a.In})
		}
	}
}

// customFunctions: callbacks registered by the embedding program, pure functions of their
// arguments; the plumbing between the interpreter and them belongs to the shared Code.
func customFunctions() []gojq.CompilerOption {
	return []gojq.CompilerOption{
		gojq.WithFunction("cf", 0, 2, func(v any, args []any) any {
			out := []any{v}
			return append(out, args...)
		}),
		gojq.WithIterFunction("cit", 0, 2, func(v any, args []any) gojq.Iter {
			vs := make([]any, 0, len(args)+1)
			for _, a := range args {
				vs = append(vs, []any{a})
			}
			return gojq.NewIter(append(vs, v)...)
		}),
		gojq.WithIterFunction("cit3", 3, 3, func(v any, args []any) gojq.Iter {
			return gojq.NewIter[any]([]any{args[0], args[1], args[2]})
		}),
	}
}

var customUse = regexp.MustCompile(`\b(cf|cit|cit3)\b`)

var customProgs = []string{
	`cf`, `cf(1)`, `cf(1; 2)`, `cf(.a?; .k?)`, `[cit]`, `[cit(1)]`, `[cit(1; 2)]`, `[cit(.a?; .k?)]`, `cit3(1; 2; 3)`, `[cit3(.a?; .k?; .)]`, `[limit(2; cit(1; 2))]`, `[.[]? | cit(.; 2)]`, `[cit(cit(1; 2); 3)]`, `reduce cit(1; 2) as $x (0; . + 1)`,
	`[cit(1; 2), cit(3; 4)]`, `[cit((1, 2); (3, 4))]`, `cf(cf(1; 2); cf(3; 4))`, `[path(cit(.a?; .k?))]?`, `first(cit(1; 2))`, `[cit(1; 2)] | length`, `try cit(error; 1) catch "E"`, `[foreach cit(1; 2) as $x (0; . + 1)]`, `def w(f): [f]; w(cit(1; 2))`,
	`[cit(.k?[0]; .k?[1])]`, `[range(3) as $i | cit($i; $i + 1)]`, `[cit("a"; "b")] | tojson`, `{a: cf(1; 2), b: [cit(3; 4)]}`, `[cit3(.; .; .)] | length`, `label $l | cit(1; 2), break $l`, `[cit(1; 2) | cit(.; 5)] | length`,
}

// long strings: natives switch algorithms or cache by subject beyond some length
var longStrIn = func() string {
	var sb strings.Builder
	for i := 0; sb.Len() < 700; i++ {
		sb.WriteString([]string{"alpha ", "bété ", "日本語 ", "x,y;", "é", "needle ", "0123 "}[(i*5+i/3)%7])
	}
	return `{"s":"` + sb.String() + `","t":"` + strings.Repeat("ab", 200) + `é` + strings.Repeat("cd", 100) + `","n":"é"}`
}()

var longStrProgs = []string{
	`.s | index("é")`, `.s | rindex("é")`, `.s | indices("é")`, `.t | index("é"), rindex("cd")`, `.s | indices("needle")`, `[.s, .t] | map(index("é"))`, `.s | test("needle")`, `.s | [match("é"; "g").offset] | length`, `.s | sub("needle"; "N")`, `.s | gsub("é"; "e") | length`,
	`.s | split(" ") | length`, `.s | [splits(" +")] | length`, `.s | ascii_downcase | length`, `.s | explode | length`, `.s | explode | implode | length`, `.s | ltrimstr("alpha ") | length`, `.s | @base64 | @base64d | length`, `.s | @uri | length`, `.s | tojson | fromjson | length`, `.s | utf8bytelength`,
	`.s | .[10:40]`, `.s | .[-20:]`, `.s * 2 | length`, `.s | contains("needle")`, `.s | startswith("alpha"), endswith("x")`, `.s + .t | length`, `.s | [scan("[a-z]+")] | length`, `.s | ascii_upcase | index("É")?`, `.s | @html | length`, `.s | @sh | length`, `.s | trim | length`, `.s | ltrimstr(.n) | length`,
	`.s | index(.n), (.t | index(.n))`, `[.s, .t, .s] | map(indices("é") | length)`, `.s | split("é") | join("e") | length`, `.s | . as $x | .[5:] | index("é")`, `.s | tostring | length`, `[.s | match("(?<w>[a-z]+)"; "g").captures[0].string] | unique | length`, `.s | @json | length`, `.s | @text | length`,
}

// numbers that keep their literal (json.Number, as the command decodes them), inside arrays that
// natives compare, sort or normalise
var literalNumberProgs = []struct{ Src, In string }{
	{`sort`, `N:[[2,1.0],[1.50,7],[0.10]]`}, {`unique`, `N:[[2,1.0],[1.50,7],[2,1.0]]`}, {`sort_by(.c)`, `N:[{"c":[1.50,2]},{"c":[1.0e0]},{"c":[0.10]}]`}, {`group_by(.c)`, `N:[{"c":[1.50,2]},{"c":[1.0e0]},{"c":[1.50,2]}]`}, {`unique_by(.c)`, `N:[{"c":[1.50,2]},{"c":[1.0e0]}]`},
	{`min_by(.c), max_by(.c)`, `N:[{"c":[1.50,2]},{"c":[1.0e0]}]`}, {`sort | tojson`, `N:[[1.10],[1.1],[1.100]]`}, {`map(. + 0)`, `N:[1.50,2.0,1e2]`}, {`add`, `N:[1.50,2.0,1e2]`}, {`.[0] < .[1]`, `N:[1.50,2.0]`}, {`tojson`, `N:[1.50,2.0,1e2,100000000000000000000]`},
	{`map(tostring)`, `N:[1.50,2.0,1e2]`}, {`. == [1.5,2,100]`, `N:[1.50,2.0,1e2]`}, {`index(2)`, `N:[1.50,2.0,1e2]`}, {`min, max`, `N:[1.50,2.0,1e2]`}, {`[.[] | floor]`, `N:[1.50,2.0,1e2]`}, {`to_entries`, `N:{"a":1.50,"b":[2.0]}`}, {`[paths]`, `N:{"a":1.50,"b":[2.0]}`},
	{`.. |= .`, `N:{"a":1.50,"b":[2.0]}`}, {`walk(.)`, `N:{"a":1.50,"b":[2.0]}`}, {`contains([2])`, `N:[1.50,2.0,1e2]`}, {`inside([1.5,2,100,3])`, `N:[1.50,2.0,1e2]`}, {`flatten`, `N:[[1.50],[2.0,[1e2]]]`}, {`transpose`, `N:[[1.50,2.0],[1e2,3.0]]`}, {`sort_by(.[0])`, `N:[[2.0,1],[1.50,2]]`},
}

func init() { directed = append(directed, literalNumberProgs...) }

func init() {
	for _, src := range longStrProgs {
		directed = append(directed, struct{ Src, In string }{src, longStrIn})
	}
}

func init() {
	for _, src := range customProgs {
		directed = append(directed, struct{ Src, In string }{src, `{"a":{"p":1},"k":[1,2,3]}`})
	}
}

func buildPool(seed uint64) *pool {
	pl := &pool{}
	for _, d := range directed {
		ps := ProgSpec{Src: d.Src}
		if strings.Contains(d.Src, "$v") {
			ps.VarNames, ps.VarVals = []string{"$v"}, []kernel.ValueSpec{sharedVar}
		}
		in := kernel.ValueSpec{JSON: d.In}
		if strings.HasPrefix(d.In, "N:") {
			in = kernel.ValueSpec{JSON: d.In[2:], Num: "jsonnumber"} // numbers as the command decodes them: literals kept
		}
		pl.items = append(pl.items, poolItem{ps, in})
	}
	for _, b := range workload.BigOperands {
		ps := ProgSpec{Src: b.Src, VarNames: workload.BigVarNames, VarVals: []kernel.ValueSpec{{JSON: workload.BigVarVals[0], Spare: 3}, {JSON: workload.BigVarVals[1]}}}
		pl.items = append(pl.items, poolItem{ps, kernel.ValueSpec{JSON: b.In}})
	}
	pl.nDirected = len(pl.items)
	for _, f := range workload.Finite {
		pl.items = append(pl.items, poolItem{ProgSpec{Src: f.Src}, kernel.ValueSpec{JSON: f.In}})
	}
	corpus, _ := workload.Corpus()
	for _, p := range corpus {
		if !workload.Deterministic(p.Src) || !workload.Tame(p.Src) || len(p.Inputs) == 0 {
			continue
		}
		pl.items = append(pl.items, poolItem{ProgSpec{Src: p.Src, VarNames: p.VarNames, VarVals: p.VarVals}, p.Inputs[0]})
	}
	return pl
}

var (
	thePool     *pool
	poolSeed    uint64
	poolSeedSet bool
)

func getPool(seed uint64) *pool {
	if thePool == nil || !poolSeedSet || poolSeed != seed {
		thePool, poolSeed, poolSeedSet = buildPool(seed), seed, true
	}
	return thePool
}

var policies = []string{"mirror", "mirror", "mixed", "mixed", "serial", "burst", "pairs"}

// genCase draws one run (swarm style: each run draws its own configuration).
func genCase(seed uint64, idx int, tr tiers) Data {
	r := kernel.NewRand(kernel.Mix(seed, 6, 1, uint64(idx)))
	pl := getPool(seed)
	var d Data
	d.Budget = tr.Budget
	d.Policy = kernel.Pick(r, policies)
	d.PolicySeed = r.Uint64()
	nprog := 1
	if r.Bool(0.3) {
		nprog = r.Range(2, 3)
	}
	g := workload.NewGen(r.Uint64())
	g.Bias = "mut"
	first := poolItem{}
	for i := 0; i < nprog; i++ {
		var it poolItem
		switch r.Weighted([]int{4, 3, 3, 2}) {
		case 0:
			it = pl.items[r.Intn(pl.nDirected)]
		case 1:
			it = pl.items[r.Intn(len(pl.items))]
		case 3:
			it = pl.items[r.Intn(len(pl.items))]
			if m := workload.MutateProgram(r, it.p.Src); workload.Deterministic(m) && workload.Tame(m) {
				it.p.Src = m
			}
		default:
			src, in := g.Program()
			it = poolItem{ProgSpec{Src: src}, in}
		}
		if i == 0 {
			first = it
		}
		d.Progs = append(d.Progs, it.p)
		if i == 0 || r.Bool(0.3) {
			d.Inputs = append(d.Inputs, it.in)
		}
	}
	_ = first
	d.ShareInput = r.Bool(0.7)
	if len(d.Progs) == 1 && len(d.Progs[0].VarNames) == 0 && r.Bool(0.15) {
		d.ViaQuery = true
	}
	nw := r.Weighted([]int{0, 0, 6, 5, 3, 1, 1, 1, 1}) // 2..8 workers, few far more often than many
	for w := 0; w < nw; w++ {
		ws := WorkerSpec{Prog: w % len(d.Progs), Input: 0, Reps: r.Range(1, 3)}
		if len(d.Inputs) > 1 && r.Bool(0.4) {
			ws.Input = r.Intn(len(d.Inputs))
		}
		d.Workers = append(d.Workers, ws)
	}
	// alias / spare capacity on inputs
	for i := range d.Inputs {
		if r.Bool(0.3) {
			d.Inputs[i].Alias = true
		}
		if r.Bool(0.3) {
			d.Inputs[i].Spare = r.Range(1, 3)
		}
	}
	d.Origin = "seeded"
	return d
}

// ---- policy ---------------------------------------------------------------------

type policy struct {
	name   string
	r      *kernel.Rand
	phases []gate.Phase
	pos    int
	n      int
	max    int
	sweepI int
	sweepJ int
	stage  int
}

var quanta = []int{1, 1, 1, 2, 3, 5, 8, 13, 40, 150, -1}

func (p *policy) next(alive []int) gate.Phase {
	p.n++
	if p.phases != nil { // explicit list, then fallback
		if p.pos < len(p.phases) {
			ph := p.phases[p.pos]
			p.pos++
			return ph
		}
		return gate.Phase{{W: alive[0], Q: -1}}
	}
	if p.n > p.max { // fallback: finish serially
		return gate.Phase{{W: alive[0], Q: -1}}
	}
	r := p.r
	switch p.name {
	case "serial":
		return gate.Phase{{W: kernel.Pick(r, alive), Q: kernel.Pick(r, quanta)}}
	case "mirror":
		q := kernel.Pick(r, []int{1, 1, 1, 1, 2, 3, 7})
		var ph gate.Phase
		for _, w := range alive {
			ph = append(ph, gate.Grant{W: w, Q: q})
		}
		return ph
	case "burst":
		var ph gate.Phase
		for _, w := range alive {
			ph = append(ph, gate.Grant{W: w, Q: -1})
		}
		return ph
	case "pairs":
		if len(alive) < 2 {
			return gate.Phase{{W: alive[0], Q: kernel.Pick(r, quanta)}}
		}
		pm := r.Perm(len(alive))
		q := kernel.Pick(r, []int{1, 1, 2, 3, 5, 20, -1})
		return gate.Phase{{W: alive[pm[0]], Q: q}, {W: alive[pm[1]], Q: q}}
	case "sweep":
		// A: i-1 steps alone, B: j-1 steps alone, then one step each together, then finish serially
		switch p.stage {
		case 0:
			p.stage = 1
			if p.sweepI > 1 {
				return gate.Phase{{W: 0, Q: p.sweepI - 1}}
			}
			fallthrough
		case 1:
			p.stage = 2
			if p.sweepJ > 1 {
				return gate.Phase{{W: 1, Q: p.sweepJ - 1}}
			}
			fallthrough
		case 2:
			p.stage = 3
			return gate.Phase{{W: 0, Q: 1}, {W: 1, Q: 1}}
		default:
			return gate.Phase{{W: alive[0], Q: -1}}
		}
	default: // mixed
		switch r.Weighted([]int{5, 3, 2}) {
		case 0:
			return gate.Phase{{W: kernel.Pick(r, alive), Q: kernel.Pick(r, quanta)}}
		case 1:
			if len(alive) < 2 {
				return gate.Phase{{W: alive[0], Q: kernel.Pick(r, quanta)}}
			}
			pm := r.Perm(len(alive))
			return gate.Phase{{W: alive[pm[0]], Q: kernel.Pick(r, quanta)}, {W: alive[pm[1]], Q: kernel.Pick(r, quanta)}}
		default:
			var ph gate.Phase
			for _, w := range alive {
				ph = append(ph, gate.Grant{W: w, Q: kernel.Pick(r, quanta)})
			}
			return ph
		}
	}
}

// ---- execution -------------------------------------------------------------------

type compiled struct {
	q    *gojq.Query
	code *gojq.Code
}

func compileProg(p ProgSpec) (*compiled, error) {
	q, err := gojq.Parse(p.Src)
	if err != nil {
		return nil, err
	}
	var opts []gojq.CompilerOption
	if customUse.MatchString(p.Src) {
		opts = customFunctions() // only where they are used: a compiler with callbacks takes other paths (builtins, inlining)
	}
	if len(p.VarNames) > 0 {
		opts = append(opts, gojq.WithVariables(p.VarNames))
	}
	code, err := gojq.Compile(q, opts...)
	if err != nil {
		return nil, err
	}
	return &compiled{q, code}, nil
}

func drain(it gojq.Iter) (outs []string, panicked string) {
	defer func() {
		if r := recover(); r != nil {
			panicked = fmt.Sprintf("%v", r)
		}
	}()
	for len(outs) < maxOut {
		v, ok := it.Next()
		if !ok {
			outs = append(outs, "<end>")
			return
		}
		outs = append(outs, kernel.Enc(v))
	}
	return
}

func runOnce(c *compiled, viaQuery bool, ctx *simctx.Ctx, input any, vars []any) (outs []string, panicked string) {
	defer func() {
		if r := recover(); r != nil {
			panicked = fmt.Sprintf("%v", r)
		}
	}()
	var it gojq.Iter
	if viaQuery {
		it = c.q.RunWithContext(ctx, input)
	} else {
		it = c.code.RunWithContext(ctx, input, vars...)
	}
	return drain(it)
}

type stats struct {
	phases, pPhases, sPhases int
	coScheduled              []uint64
	steps                    int
	skip                     string
	timing                   bool
}

func viol(d *Data, class, format string, args ...any) *kernel.Violation {
	var sb strings.Builder
	for i, p := range d.Progs {
		fmt.Fprintf(&sb, "program %d: %s\n", i, p.Src)
	}
	for i, in := range d.Inputs {
		fmt.Fprintf(&sb, "input %d: %s\n", i, in.JSON)
	}
	fmt.Fprintf(&sb, "workers=%d share_input=%v via_query=%v policy=%s\n", len(d.Workers), d.ShareInput, d.ViaQuery, d.Policy)
	return &kernel.Violation{Property: ID, Class: class, Case: kernel.NewCase(ID, d.Policy, d), Detail: sb.String() + fmt.Sprintf(format, args...)}
}

func raceLogSize() int64 {
	p := os.Getenv("VERIF_RACE_LOG")
	if p == "" {
		return 0
	}
	fi, err := os.Stat(fmt.Sprintf("%s.%d", p, os.Getpid()))
	if err != nil {
		return 0
	}
	return fi.Size()
}

func raceLogFrom(off int64) string {
	p := os.Getenv("VERIF_RACE_LOG")
	bs, err := os.ReadFile(fmt.Sprintf("%s.%d", p, os.Getpid()))
	if err != nil || int64(len(bs)) <= off {
		return ""
	}
	return string(bs[off:])
}

var frameRe = regexp.MustCompile(`(?m)^  (\S*gojq[^\s(]*)\(`)

// raceSummary extracts the first gojq frame of each access of the first report.
func raceSummary(report string) string {
	blocks := strings.Split(report, "\n\n")
	var fr []string
	for _, b := range blocks {
		if len(fr) >= 2 {
			break
		}
		if !(strings.Contains(b, " by goroutine ") || strings.Contains(b, "by main goroutine")) || strings.Contains(b, "created at") {
			continue
		}
		if m := frameRe.FindStringSubmatch(b); m != nil {
			fr = append(fr, m[1])
		}
	}
	sort.Strings(fr)
	return strings.Join(fr, " | ")
}

func execute(d *Data, maxPhases int) (*kernel.Violation, *stats) {
	st := &stats{}
	if len(d.Workers) == 0 || len(d.Progs) == 0 || len(d.Inputs) == 0 {
		st.skip = "empty"
		return nil, st
	}
	// shared compiled programs, and separately compiled ones for the solo baseline
	shared := make([]*compiled, len(d.Progs))
	solo := make([]*compiled, len(d.Progs))
	for i, p := range d.Progs {
		var err error
		if shared[i], err = compileProg(p); err != nil {
			st.skip = "compile error"
			return nil, st
		}
		solo[i], _ = compileProg(p)
	}
	sharedInputs := make([]any, len(d.Inputs))
	for i, s := range d.Inputs {
		v, err := s.Build()
		if err != nil {
			st.skip = "bad input"
			return nil, st
		}
		sharedInputs[i] = v
	}
	sharedVars := make([][]any, len(d.Progs))
	for i, p := range d.Progs {
		for _, s := range p.VarVals {
			sharedVars[i] = append(sharedVars[i], kernel.MustBuild(s))
		}
	}
	type wres struct {
		outs     [][]string
		panicked string
	}
	for _, ws := range d.Workers {
		if ws.Prog >= len(d.Progs) || ws.Input >= len(d.Inputs) {
			st.skip = "bad worker spec"
			return nil, st
		}
	}
	inputFP := make([]string, len(sharedInputs))
	for i, v := range sharedInputs {
		inputFP[i] = kernel.Enc(v)
	}
	varFP := make([]string, len(sharedVars))
	for i, v := range sharedVars {
		varFP[i] = kernel.Enc(anySlice(v))
	}
	raceBefore := raceLogSize()

	// concurrent execution under the gate
	s := gate.New(len(d.Workers))
	results := make([]wres, len(d.Workers))
	for wi := range d.Workers {
		wi := wi
		ws := d.Workers[wi]
		var input any
		if d.ShareInput {
			input = sharedInputs[ws.Input]
		} else {
			input = kernel.MustBuild(d.Inputs[ws.Input])
		}
		vars := sharedVars[ws.Prog]
		c := shared[ws.Prog]
		s.Go(wi, func(w *gate.Worker) {
			for rep := 0; rep < ws.Reps; rep++ {
				ctx := simctx.New()
				ctx.Budget = d.Budget
				ctx.OnPoll = func(*simctx.Ctx) { w.Step() }
				w.Step() // Compile inside Query.RunWithContext and newEnv are part of a scheduled window
				outs, pan := runOnce(c, d.ViaQuery, ctx, input, vars)
				results[wi].outs = append(results[wi].outs, outs)
				if pan != "" {
					results[wi].panicked = pan
					return
				}
			}
		})
	}
	if !s.WaitParked() {
		return viol(d, "stall", "workers did not reach their first yield: %s", s.Stalled), st
	}
	pol := &policy{name: d.Policy, r: kernel.NewRand(d.PolicySeed), phases: d.Phases, max: maxPhases, sweepI: d.SweepI, sweepJ: d.SweepJ}
	if d.Phases != nil && len(d.Phases) == 0 {
		pol.phases = []gate.Phase{}
	}
	progKey := make([]uint64, len(d.Workers))
	for wi, ws := range d.Workers {
		progKey[wi] = kernel.Hash64(d.Progs[ws.Prog].Src)
	}
	checkFP := func(when string) *kernel.Violation {
		for i, v := range sharedInputs {
			if fp := kernel.Enc(v); fp != inputFP[i] {
				return viol(d, "shared-input-modified", "%s: shared input %d changed\nbefore: %s\nafter:  %s", when, i, kernel.Short(inputFP[i]), kernel.Short(fp))
			}
		}
		for i, v := range sharedVars {
			if fp := kernel.Enc(anySlice(v)); fp != varFP[i] {
				return viol(d, "shared-var-modified", "%s: variable values of program %d changed\nbefore: %s\nafter:  %s", when, i, kernel.Short(varFP[i]), kernel.Short(fp))
			}
		}
		return nil
	}
	for {
		alive := s.Alive()
		if len(alive) == 0 {
			break
		}
		ph := pol.next(alive)
		// reach: which (program, step) alignments are released together
		if len(ph) > 1 {
			for a := 0; a < len(ph); a++ {
				for b := a + 1; b < len(ph); b++ {
					wa, wb := ph[a].W, ph[b].W
					if wa < len(d.Workers) && wb < len(d.Workers) {
						x := kernel.Mix(progKey[wa], uint64(s.Worker(wa).Steps))
						y := kernel.Mix(progKey[wb], uint64(s.Worker(wb).Steps))
						if x > y {
							x, y = y, x
						}
						st.coScheduled = append(st.coScheduled, kernel.Mix(x, y))
					}
				}
			}
		}
		before := len(s.Phases)
		if !s.Release(ph) {
			return viol(d, "stall", "%s", s.Stalled), st
		}
		if len(s.Phases) > before {
			st.phases++
			if len(s.Phases[len(s.Phases)-1]) > 1 {
				st.pPhases++
			} else {
				st.sPhases++
			}
		}
		if st.phases <= 40 || st.phases%16 == 0 {
			if v := checkFP(fmt.Sprintf("after phase %d", st.phases)); v != nil {
				v.Case = kernel.NewCase(ID, d.Policy, withPhases(d, s.Phases))
				return v, st
			}
		}
		if s.AllBlocked() {
			return viol(d, "deadlock", "every unfinished worker is blocked in a sync primitive"), st
		}
	}
	for wi := range d.Workers {
		st.steps += s.Worker(wi).Steps
	}
	if s.Slow {
		st.skip = "slow program (a single VM instruction ran longer than the stall limit)"
		return nil, st
	}
	// The solo baseline runs after the concurrent part (fresh compile, fresh builds
	// of the inputs, no gate), so that process-wide lazily initialised state is
	// still cold when the workers meet it.
	base := make([]wres, len(d.Workers))
	for pass := 0; pass < 2; pass++ {
		for wi, ws := range d.Workers {
			var res wres
			for rep := 0; rep < ws.Reps; rep++ {
				ctx := simctx.New()
				ctx.Budget = d.Budget
				// a fresh build of the same spec: same aliasing and spare capacity, nothing shared
				in := kernel.MustBuild(d.Inputs[ws.Input])
				var vars []any
				for _, s := range d.Progs[ws.Prog].VarVals {
					vars = append(vars, kernel.MustBuild(s))
				}
				outs, pan := runOnce(solo[ws.Prog], d.ViaQuery, ctx, in, vars)
				if pan != "" {
					return viol(d, "panic", "solo run of worker %d (program %d) panicked: %s", wi, ws.Prog, pan), st
				}
				res.outs = append(res.outs, outs)
			}
			if pass == 0 {
				base[wi] = res
			} else if fmt.Sprint(base[wi].outs) != fmt.Sprint(res.outs) {
				st.skip = "nondeterministic solo run"
				return nil, st
			}
		}
	}
	rec := withPhases(d, s.Phases)
	mk := func(v *kernel.Violation) *kernel.Violation {
		v.Case = kernel.NewCase(ID, d.Policy, rec)
		return v
	}
	if v := checkFP("at the end"); v != nil {
		return mk(v), st
	}
	for wi := range d.Workers {
		if results[wi].panicked != "" {
			return mk(viol(d, "panic", "worker %d (program %d) panicked under the gate: %s", wi, d.Workers[wi].Prog, results[wi].panicked)), st
		}
		for rep := range base[wi].outs {
			var got []string
			if rep < len(results[wi].outs) {
				got = results[wi].outs[rep]
			}
			want := base[wi].outs[rep]
			if len(got) != len(want) {
				return mk(viol(d, "output-differs", "worker %d repetition %d: %d outputs under the schedule, %d when run alone\nalone: %s\ngated: %s", wi, rep, len(got), len(want), kernel.Short(fmt.Sprint(want)), kernel.Short(fmt.Sprint(got)))), st
			}
			for k := range want {
				if got[k] != want[k] {
					return mk(viol(d, "output-differs", "worker %d repetition %d output #%d: under the schedule %s, alone %s", wi, rep, k, kernel.Short(got[k]), kernel.Short(want[k]))), st
				}
			}
		}
	}
	if rep := raceLogFrom(raceBefore); rep != "" && strings.Contains(rep, "github.com/itchyny/gojq.") {
		v := viol(d, "race", "the race detector reported a data race between co-scheduled windows (%s):\n%s", raceSummary(rep), kernel.Short2(rep, 6000))
		v.Case = kernel.NewCase(ID, d.Policy, d) // replay by policy seed: the recorded phases are the same function of it
		return v, st
	}
	return nil, st
}

func withPhases(d *Data, ph []gate.Phase) *Data {
	e := *d
	e.Phases = append([]gate.Phase{}, ph...)
	return &e
}

func anySlice(v []any) any {
	if v == nil {
		return []any{}
	}
	return v
}

func (Prop) Exec(c kernel.Case) *kernel.Violation {
	var d Data
	if err := c.Decode(&d); err != nil {
		return &kernel.Violation{Property: ID, Class: "bad-case", Detail: err.Error(), Case: c}
	}
	v, _ := execute(&d, 100000)
	return v
}

func sweepCase(seed uint64, k int, tr tiers) (Data, bool) {
	r := kernel.NewRand(kernel.Mix(seed, 6, 2, uint64(k)))
	it := directed[r.Intn(len(directed))]
	ps := ProgSpec{Src: it.Src}
	if strings.Contains(it.Src, "$v") {
		ps.VarNames, ps.VarVals = []string{"$v"}, []kernel.ValueSpec{sharedVar}
	}
	d := Data{Progs: []ProgSpec{ps}, Inputs: []kernel.ValueSpec{{JSON: it.In}}, ShareInput: true, Budget: tr.Budget, Policy: "sweep",
		Workers: []WorkerSpec{{0, 0, 1}, {0, 0, 1}}, Origin: "sweep"}
	return d, true
}

func (Prop) RunUnit(env *kernel.Env, unit int) {
	tr := tier(env.Tier)
	out := env.Out
	record := func(d *Data, v *kernel.Violation, st *stats) {
		out.Inc("evaluations")
		if st.skip != "" {
			out.Inc("skipped_" + strings.ReplaceAll(st.skip, " ", "_"))
			return
		}
		out.Add("phases", int64(st.phases))
		out.Add("p_phases", int64(st.pPhases))
		out.Add("s_phases", int64(st.sPhases))
		out.Add("sim_steps", int64(st.steps))
		out.Inc("policy_" + d.Policy)
		out.Inc(fmt.Sprintf("workers_%d", len(d.Workers)))
		if d.ShareInput {
			out.Inc("config_shared_input")
		} else {
			out.Inc("config_distinct_inputs")
		}
		if d.ViaQuery {
			out.Inc("config_shared_query_each_worker_compiles")
		}
		if len(d.Progs) > 1 {
			out.Inc("config_several_programs")
		}
		for _, h := range st.coScheduled {
			out.DistinctH("co_scheduled_alignments", h)
		}
		if st.pPhases > 0 {
			bs := fmt.Sprint(d.Progs, d.Inputs, d.Workers, d.ShareInput, d.ViaQuery, d.Policy, d.PolicySeed, d.SweepI, d.SweepJ)
			out.Distinct("nontrivial", bs)
		}
		if v != nil {
			out.Violate(v)
		}
	}
	nRunUnits := (tr.Runs + unitSize - 1) / unitSize
	if unit >= nRunUnits+tr.Sweeps {
		u := unit - nRunUnits - tr.Sweeps
		variants := 1
		if env.Tier == "thorough" {
			variants = 3
		}
		for k := 0; k < unitSize; k++ {
			idx := u*unitSize + k
			if idx >= len(getPool(env.Seed).items) {
				break
			}
			for variant := 0; variant < variants; variant++ {
				d := systematicCase(env.Seed, idx, tr, variant)
				out.Mark(kernel.NewCase(ID, d.Policy, d))
				v, st := execute(&d, tr.MaxPhases)
				record(&d, v, st)
				if st.skip == "" {
					out.Inc("systematic_runs")
				}
			}
			// cold process: lazily initialised process-wide state (caches, memos) is only cold for the
			// first case of a process, so the directed programs (all pool programs in the thorough tier)
			// are also run once each in a process of their own, workers first, solo baseline after
			if idx < len(directed) || env.Tier == "thorough" {
				d := systematicCase(env.Seed, idx, tr, 1) // burst: all workers released together
				c := kernel.NewCase(ID, d.Policy, d)
				out.Mark(c)
				if v := kernel.ExecFresh(Prop{}, c); v != nil {
					out.Violate(v)
				}
				out.Inc("cold_process_runs")
				out.Inc("evaluations")
			}
		}
		return
	}
	if unit >= nRunUnits {
		// alignment sweep: all (i, j) poll alignments of a two-worker run of one directed program
		d, _ := sweepCase(env.Seed, unit-nRunUnits, tr)
		// length of the solo run in steps
		d0 := d
		d0.Policy, d0.Phases = "serial", nil
		_, st0 := execute(&d0, 1)
		n := st0.steps / 2
		if st0.skip != "" || n == 0 {
			return
		}
		if n > 60 {
			n = 60
		}
		for i := 1; i <= n; i++ {
			for j := 1; j <= n; j++ {
				dd := d
				dd.SweepI, dd.SweepJ = i, j
				out.Mark(kernel.NewCase(ID, dd.Policy, dd))
				v, st := execute(&dd, tr.MaxPhases)
				record(&dd, v, st)
				if v != nil {
					return
				}
			}
		}
		out.Inc("alignment_sweeps_completed")
		return
	}
	for k := 0; k < unitSize; k++ {
		idx := unit*unitSize + k
		if idx >= tr.Runs {
			break
		}
		d := genCase(env.Seed, idx, tr)
		out.Mark(kernel.NewCase(ID, d.Policy, d))
		v, st := execute(&d, tr.MaxPhases)
		record(&d, v, st)
		if out.WantSample() && k == 0 && st.skip == "" {
			out.Sample(map[string]any{"programs": d.Progs, "inputs": d.Inputs, "workers": d.Workers, "share_input": d.ShareInput,
				"via_query": d.ViaQuery, "policy": d.Policy, "phases_released": st.phases, "parallel_phases": st.pPhases, "vm_steps": st.steps})
		}
	}
}

func (Prop) Shrink(c kernel.Case) []kernel.Case {
	var d Data
	if c.Decode(&d) != nil {
		return nil
	}
	var out []kernel.Case
	add := func(e Data) { out = append(out, kernel.NewCase(ID, e.Policy, e)) }
	// fewer workers
	if len(d.Workers) > 2 {
		for i := range d.Workers {
			e := d
			e.Workers = append(append([]WorkerSpec{}, d.Workers[:i]...), d.Workers[i+1:]...)
			e.Phases = dropWorker(d.Phases, i)
			add(e)
		}
	}
	for i, w := range d.Workers {
		if w.Reps > 1 {
			e := d
			e.Workers = append([]WorkerSpec{}, d.Workers...)
			e.Workers[i].Reps = 1
			add(e)
		}
	}
	// fewer phases (ddmin-style halves, then single removals)
	if n := len(d.Phases); n > 0 {
		for w := n / 2; w >= 1; w /= 2 {
			for i := 0; i+w <= n; i += w {
				e := d
				e.Phases = append(append([]gate.Phase{}, d.Phases[:i]...), d.Phases[i+w:]...)
				add(e)
			}
			if len(out) > 200 {
				break
			}
		}
		// serialise a parallel phase
		for i, ph := range d.Phases {
			if len(ph) > 1 && len(out) < 400 {
				e := d
				e.Phases = append([]gate.Phase{}, d.Phases[:i]...)
				for _, g := range ph {
					e.Phases = append(e.Phases, gate.Phase{g})
				}
				e.Phases = append(e.Phases, d.Phases[i+1:]...)
				add(e)
			}
		}
	}
	if len(d.Progs) == 1 {
		for _, src := range workload.ShrinkProgram(d.Progs[0].Src) {
			e := d
			e.Progs = []ProgSpec{{Src: src, VarNames: d.Progs[0].VarNames, VarVals: d.Progs[0].VarVals}}
			add(e)
		}
	}
	for i := range d.Inputs {
		for _, js := range workload.ShrinkJSON(d.Inputs[i].JSON) {
			e := d
			e.Inputs = append([]kernel.ValueSpec{}, d.Inputs...)
			e.Inputs[i].JSON = js
			add(e)
		}
	}
	return out
}

func dropWorker(phs []gate.Phase, w int) []gate.Phase {
	var out []gate.Phase
	for _, ph := range phs {
		var q gate.Phase
		for _, g := range ph {
			if g.W == w {
				continue
			}
			if g.W > w {
				g.W--
			}
			q = append(q, g)
		}
		if len(q) > 0 {
			out = append(out, q)
		}
	}
	return out
}

func (Prop) Describe(ev *kernel.Evidence) {
	st := ev.Coverage["stats"].(map[string]int64)
	sets := ev.Coverage["distinct_sets"].(map[string]int)
	ev.Coverage["evaluations"] = st["evaluations"]
	ev.Coverage["distinct_nontrivial"] = sets["nontrivial"]
	ev.Coverage["rule"] = "one evaluation = one simulated run: G workers x R repetitions of 1-3 programs over shared or distinct inputs under one seeded schedule of phases; " +
		"non-trivial and distinct = distinct (programs, inputs, workers, sharing mode, policy, policy seed) in which at least one phase released two or more workers together (windows with no happens-before edge between them)"
	ev.Coverage["simulated_time"] = map[string]any{"vm_steps": st["sim_steps"], "phases": st["phases"]}
	ev.Coverage["schedule_kinds"] = map[string]any{"serial_phases": st["s_phases"], "parallel_phases": st["p_phases"],
		"distinct_co_scheduled_alignments": sets["co_scheduled_alignments"], "alignment_sweeps_completed": st["alignment_sweeps_completed"]}
	ev.Coverage["components"] = map[string]string{
		"real":      "gojq parser, compiler, VM, natives, regexp cache (from /repo working tree), Go race detector, Go runtime map-write checks",
		"simulated": "caller goroutine scheduling (gate parked in ctx.Done()), context.Context",
		"absent":    "clock, network, disk",
	}
	ev.Assumptions = []string{
		"natives execute inside one VM instruction and are atomic with respect to the choice of interleaving, not with respect to memory: conflicts inside them are found by the race detector only when the two windows are released in the same phase",
		"the race detector keeps four shadow cells per word; a conflicting pair may be evicted when many workers touch one word in one phase",
		"programs whose solo run is not repeatable are skipped and counted",
	}
}
