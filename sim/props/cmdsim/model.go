// Package cmdsim holds the simulations of the gojq command on simulated
// streams: C15 (output and exit status under delivery schedules and faults)
// and C16 (input modes: ordering, exactly-once, --stream under truncation).
package cmdsim

import (
	"encoding/json"
	"errors"
	"fmt"
	"io"
	"os"
	"path/filepath"
	"sort"
	"strings"

	"github.com/itchyny/gojq"
	"github.com/itchyny/gojq/cli"

	"verif/sim/kernel"
	"verif/sim/seams/simio"
)

// Source is one input of the command line, in order. Name "-" is stdin; with
// no sources at all stdin is read implicitly.
type Source struct {
	Name string `json:"name"`
	Text string `json:"text"`
}

// Scenario is the replayable description of one run of the command.
type Scenario struct {
	Flags     []string       `json:"flags"`              // output/input mode flags
	Indent    int            `json:"indent"`             // with --indent
	Spell     uint64         `json:"spell,omitempty"`    // != 0: the flags are spelled another way (long names, bundled short flags, --flag=value), seeded by this
	PreArgs   []string       `json:"pre_args"`           // --arg etc. before the query
	Query     string         `json:"query"`              // query text
	FromFile  bool           `json:"from_file"`          // pass the query with -f
	NoQuery   bool           `json:"no_query,omitempty"` // pass no query argument at all
	Sources   []Source       `json:"sources"`            // files and "-" in command-line order (empty: implicit stdin)
	Stdin     string         `json:"stdin"`              // the bytes of standard input
	Plan      simio.ReadPlan `json:"plan"`               // delivery schedule and read fault of stdin
	PlanClass string         `json:"plan_class,omitempty"`
	WriteFail int            `json:"write_fail"`          // stdout refuses bytes from this offset on (-1: never)
	PostArgs  []string       `json:"post_args,omitempty"` // --args / --jsonargs and positionals after the sources
	Files     []Source       `json:"files,omitempty"`     // auxiliary files; an argument "@@name" is replaced by the file's path
}

func (sc *Scenario) has(f string) bool {
	for _, x := range sc.Flags {
		if x == f {
			return true
		}
	}
	return false
}

// ---- running the real command ---------------------------------------------------

type Result struct {
	Stdout, Stderr string
	Exit           int
	Panicked       string
	Reads          int
	StdoutFailed   bool
	FaultFired     bool
	Delivered      int
}

var scratchDir string

func scratch() string {
	if scratchDir == "" {
		base := os.Getenv("VERIF_SCRATCH")
		if base == "" {
			base = "/verif/.build"
			if d := os.Getenv("VERIF_DIR"); d != "" {
				base = filepath.Join(d, ".build")
			}
		}
		os.MkdirAll(base, 0o755)
		d, err := os.MkdirTemp(base, "cmdfiles-")
		if err != nil {
			panic(err)
		}
		scratchDir = d
	}
	return scratchDir
}

var longNames = map[string]string{"-c": "--compact-output", "-r": "--raw-output", "-j": "--join-output", "-n": "--null-input", "-s": "--slurp", "-e": "--exit-status", "-R": "--raw-input"}

func isShortBundle(a string) bool {
	if len(a) < 2 || a[0] != '-' || a[1] == '-' {
		return false
	}
	for _, c := range a[1:] {
		if !(c >= 'a' && c <= 'z' || c >= 'A' && c <= 'Z') {
			return false
		}
	}
	return true
}

func (sc *Scenario) argv() []string {
	var args []string
	var sp *kernel.Rand
	if sc.Spell != 0 {
		sp = kernel.NewRand(sc.Spell)
	}
	for _, f := range sc.Flags {
		switch {
		case f == "--indent":
			if sp != nil && sp.Bool(0.5) {
				args = append(args, "--indent="+fmt.Sprint(sc.Indent))
			} else {
				args = append(args, f, fmt.Sprint(sc.Indent))
			}
		case sp != nil && longNames[f] != "" && sp.Bool(0.3):
			args = append(args, longNames[f])
		case sp != nil && longNames[f] != "" && len(args) > 0 && isShortBundle(args[len(args)-1]) && sp.Bool(0.6):
			args[len(args)-1] += f[1:] // -c -r spelled -cr
		default:
			args = append(args, f)
		}
	}
	aux := map[string]string{}
	for _, f := range sc.Files {
		p := filepath.Join(scratch(), "aux-"+f.Name)
		os.WriteFile(p, []byte(f.Text), 0o644)
		aux["@@"+f.Name] = p
	}
	sub := func(a string) string {
		if p, ok := aux[a]; ok {
			return p
		}
		return a
	}
	for i := 0; i < len(sc.PreArgs); i++ {
		a := sc.PreArgs[i]
		if (a == "--arg" || a == "--argjson" || a == "--slurpfile" || a == "--rawfile") && i+2 < len(sc.PreArgs) {
			// a binding flag with its name and value (which may themselves look like flags)
			name, val := sc.PreArgs[i+1], sub(sc.PreArgs[i+2])
			i += 2
			if sp != nil && sp.Bool(0.4) {
				args = append(args, a+"="+name, val) // --arg=name value
			} else {
				args = append(args, a, name, val)
			}
			continue
		}
		args = append(args, sub(a))
	}
	if sc.NoQuery {
		// nothing
	} else if sc.FromFile {
		f := filepath.Join(scratch(), "query.jq")
		os.WriteFile(f, []byte(sc.Query), 0o644)
		args = append(args, "-f", f)
	} else {
		args = append(args, sc.Query)
	}
	for i, s := range sc.Sources {
		if s.Name == "-" {
			args = append(args, "-")
			continue
		}
		f := filepath.Join(scratch(), fmt.Sprintf("src%d.json", i))
		os.WriteFile(f, []byte(s.Text), 0o644)
		args = append(args, f)
	}
	args = append(args, sc.PostArgs...)
	return args
}

// argvForDisplay is argv with the (randomly named) scratch directory abstracted away, so that
// reports and samples are the same in every process.
func (sc *Scenario) argvForDisplay() []string {
	args := sc.argv()
	for i, a := range args {
		args[i] = strings.ReplaceAll(a, scratch(), "$SCRATCH")
	}
	return args
}

func (sc *Scenario) Run() (res Result) {
	in := simio.NewReader([]byte(sc.Stdin), sc.Plan)
	out, errw := simio.NewWriter(sc.WriteFail), simio.NewWriter(-1)
	args := sc.argv()
	defer func() {
		if r := recover(); r != nil {
			res.Panicked = fmt.Sprint(r)
		}
		res.Stdout, res.Stderr = out.String(), errw.String()
		rd := simio.Unwrap(in)
		res.Reads, res.FaultFired, res.Delivered = rd.Reads, rd.FaultsFired > 0, rd.Delivered()
		res.StdoutFailed = out.Failed
	}()
	res.Exit = cli.VerifRun(in, out, errw, args)
	return
}

// ---- the reference model ----------------------------------------------------------

// Expect is what the statement of C15/C16 prescribes.
type Expect struct {
	Stdout      string
	Status      int
	Diagnostics int    // number of error diagnostics expected on stderr (runtime + input errors)
	HaltMessage string // exact bytes a halt_error writes to stderr
	Halted      bool
	Outputs     int
}

type item struct {
	val   any
	isErr bool
}

// queue is the single sequence all consumers (the per-input loop, `input`,
// `inputs`) draw from, strictly in order.
type queue struct {
	items []item
	pos   int
}

func (q *queue) Next() (any, bool) {
	if q.pos >= len(q.items) {
		return nil, false
	}
	it := q.items[q.pos]
	q.pos++
	if it.isErr {
		return errors.New("input error"), true
	}
	return it.val, true
}

// parseJSONSource splits a text into documents; a malformed or truncated
// document yields every complete value before it, then one error, then the
// end of that source.
func parseJSONSource(text string) []item {
	var items []item
	dec := json.NewDecoder(strings.NewReader(text))
	dec.UseNumber()
	for {
		var v any
		if err := dec.Decode(&v); err != nil {
			if err != io.EOF {
				items = append(items, item{isErr: true})
			}
			return items
		}
		items = append(items, item{val: v})
	}
}

func parseRawSource(text string) []item {
	var items []item
	lines := strings.Split(text, "\n")
	if lines[len(lines)-1] == "" {
		lines = lines[:len(lines)-1]
	}
	for _, l := range lines {
		items = append(items, item{val: l})
	}
	return items
}

// streamEvents is the recursive-descent event model of --stream.
func streamEvents(text string) []item {
	var items []item
	dec := json.NewDecoder(strings.NewReader(text))
	dec.UseNumber()
	emit := func(ev []any) { items = append(items, item{val: ev}) }
	cp := func(p []any) []any { return append([]any{}, p...) }
	eof := func(err error) error { // the end of the text inside a document is a truncation
		if err == io.EOF {
			return io.ErrUnexpectedEOF
		}
		return err
	}
	var value func(path []any) error
	value = func(path []any) error {
		tok, err := dec.Token()
		if err != nil {
			if path != nil || len(path) > 0 {
				return eof(err)
			}
			return err
		}
		d, isDelim := tok.(json.Delim)
		if !isDelim {
			emit([]any{cp(path), tok})
			return nil
		}
		var last any
		n := 0
		if d == '[' {
			for dec.More() {
				if err := value(append(append([]any{}, path...), n)); err != nil {
					return err
				}
				last = n
				n++
			}
		} else {
			for dec.More() {
				k, err := dec.Token()
				if err != nil {
					return eof(err)
				}
				ks, _ := k.(string)
				if err := value(append(append([]any{}, path...), ks)); err != nil {
					return err
				}
				last = ks
				n++
			}
		}
		if _, err := dec.Token(); err != nil { // the closing delimiter
			return eof(err)
		}
		if n == 0 {
			if d == '[' {
				emit([]any{cp(path), []any{}})
			} else {
				emit([]any{cp(path), map[string]any{}})
			}
		} else {
			emit([]any{append(cp(path), last)})
		}
		return nil
	}
	for {
		if err := value(nil); err != nil { // nil path: top level
			if err != io.EOF {
				items = append(items, item{isErr: true})
			}
			return items
		}
	}
}

// sourcesInOrder returns the texts in the order the command consumes them.
func (sc *Scenario) sourceTexts() []string {
	if len(sc.Sources) == 0 {
		return []string{sc.Stdin}
	}
	var ts []string
	for _, s := range sc.Sources {
		if s.Name == "-" {
			ts = append(ts, sc.Stdin)
		} else {
			ts = append(ts, s.Text)
		}
	}
	return ts
}

func (sc *Scenario) modelItems() []item {
	var items []item
	raw, slurp, stream := sc.has("-R"), sc.has("-s"), sc.has("--stream")
	texts := sc.sourceTexts()
	if raw && slurp {
		return []item{{val: strings.Join(texts, "")}}
	}
	for _, t := range texts {
		switch {
		case raw:
			items = append(items, parseRawSource(t)...)
		case stream:
			items = append(items, streamEvents(t)...)
		default:
			items = append(items, parseJSONSource(t)...)
		}
	}
	if slurp {
		var vs []any
		for _, it := range items {
			if it.isErr {
				return []item{{isErr: true}}
			}
			vs = append(vs, it.val)
		}
		if vs == nil {
			vs = []any{}
		}
		return []item{{val: vs}}
	}
	return items
}

// Render is the output format of the statement: compact, or indented by
// depth x unit with sorted keys; scalars as the library marshals them.
func Render(v any, compact bool, unit string, depth int) string {
	switch v := v.(type) {
	case []any:
		if len(v) == 0 {
			return "[]"
		}
		var sb strings.Builder
		sb.WriteString("[")
		for i, x := range v {
			if i > 0 {
				sb.WriteString(",")
			}
			if !compact {
				sb.WriteString("\n" + strings.Repeat(unit, depth+1))
			}
			sb.WriteString(Render(x, compact, unit, depth+1))
		}
		if !compact {
			sb.WriteString("\n" + strings.Repeat(unit, depth))
		}
		sb.WriteString("]")
		return sb.String()
	case map[string]any:
		if len(v) == 0 {
			return "{}"
		}
		ks := make([]string, 0, len(v))
		for k := range v {
			ks = append(ks, k)
		}
		sort.Strings(ks)
		var sb strings.Builder
		sb.WriteString("{")
		for i, k := range ks {
			if i > 0 {
				sb.WriteString(",")
			}
			if !compact {
				sb.WriteString("\n" + strings.Repeat(unit, depth+1))
			}
			kb, _ := gojq.Marshal(k)
			sb.Write(kb)
			sb.WriteString(":")
			if !compact {
				sb.WriteString(" ")
			}
			sb.WriteString(Render(v[k], compact, unit, depth+1))
		}
		if !compact {
			sb.WriteString("\n" + strings.Repeat(unit, depth))
		}
		sb.WriteString("}")
		return sb.String()
	default:
		bs, err := gojq.Marshal(v)
		if err != nil {
			return "<marshal error: " + err.Error() + ">"
		}
		return string(bs)
	}
}

func (sc *Scenario) format() (compact bool, unit string, raw bool, term string) {
	unit = "  "
	if sc.has("--indent") {
		unit = strings.Repeat(" ", sc.Indent)
	}
	if sc.has("--tab") {
		unit = "\t"
	}
	compact = sc.has("-c")
	raw = sc.has("-r") || sc.has("-j") || sc.has("--raw-output0")
	switch {
	case sc.has("--raw-output0"):
		term = "\x00"
	case sc.has("-j"):
		term = ""
	default:
		term = "\n"
	}
	return
}

// Vars is how the model binds the named arguments of the scenario.
type Vars struct {
	Names  []string
	Values []any
}

// Model computes the expected stdout and status from the library run on the
// parsed inputs: the statement's own definition.
func (sc *Scenario) Model(vars Vars) (exp Expect, err error) {
	q := &queue{items: sc.modelItems()}
	query, perr := gojq.Parse(sc.Query)
	if perr != nil {
		return exp, fmt.Errorf("model: query does not parse: %w", perr)
	}
	// the command's own builtins that write to stderr only: identity as far as stdout is concerned
	ident := func(v any, _ []any) any { return v }
	code, cerr := gojq.Compile(query, gojq.WithInputIter(q), gojq.WithVariables(vars.Names),
		gojq.WithFunction("debug", 0, 0, ident), gojq.WithFunction("stderr", 0, 0, ident))
	if cerr != nil {
		return exp, fmt.Errorf("model: query does not compile: %w", cerr)
	}
	compact, unit, raw, term := sc.format()
	var sb strings.Builder
	hadErr := false
	lastFalsy, anyOut := false, false
	var mainIter gojq.Iter = q
	if sc.has("-n") {
		mainIter = gojq.NewIter[any](nil)
	}
loop:
	for {
		v, ok := mainIter.Next()
		if !ok {
			break
		}
		if _, isErr := v.(error); isErr {
			hadErr = true
			exp.Diagnostics++
			continue
		}
		it := code.Run(v, vars.Values...)
		for {
			o, ok := it.Next()
			if !ok {
				break
			}
			if e, isErr := o.(error); isErr {
				var he *gojq.HaltError
				if errors.As(e, &he) {
					exp.Halted = true
					exp.Status = he.ExitCode() & 0xff
					if hv := he.Value(); hv != nil {
						if s, ok := hv.(string); ok {
							exp.HaltMessage = s
						} else {
							bs, _ := gojq.Marshal(hv)
							exp.HaltMessage = string(bs) + "\n"
						}
					}
					break loop
				}
				hadErr = true
				exp.Diagnostics++
				break // a runtime error ends this input's outputs; later inputs are still processed
			}
			if s, isStr := o.(string); isStr && raw {
				if sc.has("--raw-output0") && strings.ContainsRune(s, 0) {
					hadErr = true
					exp.Diagnostics++
					break
				}
				sb.WriteString(s)
			} else {
				sb.WriteString(Render(o, compact, unit, 0))
			}
			sb.WriteString(term)
			exp.Outputs++
			anyOut = true
			lastFalsy = o == nil || o == false
		}
	}
	exp.Stdout = sb.String()
	if exp.Halted {
		return exp, nil
	}
	switch {
	case hadErr:
		exp.Status = 5
	case sc.has("-e") && !anyOut:
		exp.Status = 4
	case sc.has("-e") && lastFalsy:
		exp.Status = 1
	}
	return exp, nil
}
