package cmdsim

import (
	"encoding/json"
	"fmt"
	"strings"

	"github.com/itchyny/gojq"

	"verif/sim/kernel"
	"verif/sim/seams/simio"
)

// C16 -----------------------------------------------------------------------------

type C16 struct{}

func (C16) ID() string    { return "C16" }
func (C16) Level() string { return "fault_enumeration" }

type c16Data struct {
	Kind     string   `json:"kind"` // order | slurp-equiv | raw | stream | malformed | args
	Scenario Scenario `json:"scenario"`
	Template int      `json:"template,omitempty"` // order: index into orderTemplates
	// stream: the untruncated document text and the cut; Retain: how the events are consumed
	// ("" printed one by one, "collect" = -n [inputs], "slurp" = -s ., "pairs" = input as $a | input as $b | ...)
	Doc    string `json:"doc,omitempty"`
	Cut    int    `json:"cut,omitempty"`
	Retain string `json:"retain,omitempty"`
	// args: the expected output, computed by construction
	Want string `json:"want,omitempty"`
}

type c16tiers struct{ Order, Slurp, Raw, StreamDocs, Malformed, Args int }

func c16tier(t string) c16tiers {
	if t == "thorough" {
		return c16tiers{Order: 1000000, Slurp: 200000, Raw: 200000, StreamDocs: 60000, Malformed: 400000, Args: 200000}
	}
	return c16tiers{Order: 40000, Slurp: 8000, Raw: 8000, StreamDocs: 2000, Malformed: 20000, Args: 10000}
}

const c16Unit = 200
const streamPerUnit = 4

func (C16) Units(t string, seed uint64) int {
	tr := c16tier(t)
	return (tr.Order+tr.Slurp+tr.Raw+tr.Malformed+tr.Args)/c16Unit + tr.StreamDocs/streamPerUnit
}

// ---- order / exactly-once: hand-written queue semantics -----------------------------

type orderTemplate struct {
	Query string
	Null  bool // needs -n
	// eval consumes the document list the way the query must and returns the outputs and whether an error ends the run
	eval func(d []any) (outs []any, err bool)
}

var orderTemplates = []orderTemplate{
	{`[inputs]`, true, func(d []any) ([]any, bool) { return []any{arr(d)}, false }},
	{`input, input`, true, func(d []any) ([]any, bool) {
		if len(d) >= 2 {
			return []any{d[0], d[1]}, false
		}
		return d, true
	}},
	{`[., input]`, false, func(d []any) ([]any, bool) {
		var outs []any
		for i := 0; i < len(d); i += 2 {
			if i+1 >= len(d) {
				return outs, true
			}
			outs = append(outs, []any{d[i], d[i+1]})
		}
		return outs, false
	}},
	{`first(inputs)`, true, func(d []any) ([]any, bool) {
		if len(d) > 0 {
			return []any{d[0]}, false
		}
		return nil, false
	}},
	{`[limit(2; inputs)], [inputs]`, true, func(d []any) ([]any, bool) {
		k := min(2, len(d))
		return []any{arr(d[:k]), arr(d[k:])}, false
	}},
	{`reduce inputs as $x (0; . + 1)`, true, func(d []any) ([]any, bool) { return []any{len(d)}, false }},
	{`foreach inputs as $x (0; . + 1; [., $x])`, true, func(d []any) ([]any, bool) {
		var outs []any
		for i, x := range d {
			outs = append(outs, []any{i + 1, x})
		}
		return outs, false
	}},
	{`([inputs] | length), (try input catch "end")`, true, func(d []any) ([]any, bool) { return []any{len(d), "end"}, false }},
	{`., (try input catch "none")`, false, func(d []any) ([]any, bool) {
		var outs []any
		for i := 0; i < len(d); i += 2 {
			outs = append(outs, d[i])
			if i+1 < len(d) {
				outs = append(outs, d[i+1])
			} else {
				outs = append(outs, "none")
			}
		}
		return outs, false
	}},
	{`[.] + [inputs]`, false, func(d []any) ([]any, bool) {
		if len(d) == 0 {
			return nil, false
		}
		return []any{arr(d)}, false
	}},
	{`[limit(3; inputs)] | length`, true, func(d []any) ([]any, bool) { return []any{min(3, len(d))}, false }},
	{`input as $a | input as $b | [$b, $a], [inputs]`, true, func(d []any) ([]any, bool) {
		if len(d) < 2 {
			return nil, true
		}
		return []any{[]any{d[1], d[0]}, arr(d[2:])}, false
	}},
	{`[range(2) | input], (try input catch "end")`, true, func(d []any) ([]any, bool) {
		if len(d) < 2 {
			return nil, true
		}
		if len(d) >= 3 {
			return []any{[]any{d[0], d[1]}, d[2]}, false
		}
		return []any{[]any{d[0], d[1]}, "end"}, false
	}},
	{`.id, (input | .id)`, false, func(d []any) ([]any, bool) {
		var outs []any
		for i := 0; i < len(d); i += 2 {
			outs = append(outs, id(d[i]))
			if i+1 >= len(d) {
				return outs, true
			}
			outs = append(outs, id(d[i+1]))
		}
		return outs, false
	}},
	{`[.id] + [inputs | .id] | add`, false, func(d []any) ([]any, bool) {
		if len(d) == 0 {
			return nil, false
		}
		s := 0
		for _, x := range d {
			s += id(x).(int)
		}
		return []any{s}, false
	}},
	{`first(inputs | select(.id > 2)) | .id, ([inputs] | map(.id))`, true, func(d []any) ([]any, bool) {
		for i, x := range d {
			if id(x).(int) > 2 {
				var rest []any
				for _, y := range d[i+1:] {
					rest = append(rest, id(y))
				}
				return []any{id(x), arr(rest)}, false
			}
		}
		return nil, false
	}},
}

func arr(d []any) any {
	if d == nil {
		return []any{}
	}
	return append([]any{}, d...)
}

func id(v any) any {
	if m, ok := v.(map[string]any); ok {
		if n, ok := m["id"].(int); ok {
			return n
		}
	}
	return nil
}

// idDocs builds n documents with unique ids (as Go values and JSON texts).
func idDocs(r *kernel.Rand, n int) (vals []any, texts []string) {
	for i := 1; i <= n; i++ {
		m := map[string]any{"id": i}
		t := fmt.Sprintf(`{"id":%d`, i)
		switch r.Intn(4) {
		case 0:
			m["v"] = []any{i, "x"}
			t += fmt.Sprintf(`,"v":[%d,"x"]`, i)
		case 1:
			m["s"] = fmt.Sprintf("doc%d", i)
			t += fmt.Sprintf(`, "s" : "doc%d"`, i)
		case 2:
			m["n"] = nil
			t += `,"n":null`
		}
		t += "}"
		vals, texts = append(vals, m), append(texts, t)
	}
	return
}

// splitSources cuts a document list into 1-4 sources (files and "-").
func splitSources(r *kernel.Rand, texts []string) (srcs []Source, stdin string) {
	nsrc := r.Range(1, 4)
	cuts := make([]int, 0, nsrc+1)
	cuts = append(cuts, 0)
	for i := 1; i < nsrc; i++ {
		cuts = append(cuts, r.Intn(len(texts)+1))
	}
	cuts = append(cuts, len(texts))
	for i := 1; i < len(cuts); i++ {
		for j := i; j > 0 && cuts[j] < cuts[j-1]; j-- {
			cuts[j], cuts[j-1] = cuts[j-1], cuts[j]
		}
	}
	dash := -1
	if r.Bool(0.7) {
		dash = r.Intn(nsrc)
	}
	for i := 0; i < nsrc; i++ {
		part := texts[cuts[i]:cuts[i+1]]
		text := joinDocs(r, part, r.Bool(0.6))
		if i == dash {
			srcs = append(srcs, Source{Name: "-"})
			stdin = text
		} else {
			srcs = append(srcs, Source{Name: "f", Text: text})
		}
	}
	if nsrc == 1 && dash == 0 && r.Bool(0.5) {
		srcs = nil // implicit stdin
	}
	return
}

func expectedFrom(outs []any, errEnd bool) (string, int) {
	var sb strings.Builder
	for _, o := range outs {
		sb.WriteString(Render(o, true, "", 0))
		sb.WriteString("\n")
	}
	if errEnd {
		return sb.String(), 5
	}
	return sb.String(), 0
}

// ---- generation -------------------------------------------------------------------------

func genC16(seed uint64, tier string, idx int) c16Data {
	tr := c16tier(tier)
	r := kernel.NewRand(kernel.Mix(seed, 16, 1, uint64(idx)))
	var d c16Data
	sc := &d.Scenario
	sc.WriteFail = -1
	switch {
	case idx < tr.Order:
		d.Kind = "order"
		d.Template = r.Intn(len(orderTemplates))
		t := orderTemplates[d.Template]
		ndocs := r.Range(0, 7)
		if r.Bool(0.03) {
			ndocs = kernel.Pick(r, []int{60, 300, 1200}) // many documents: the decoder refills its buffer between them
		}
		_, texts := idDocs(r, ndocs)
		sc.Sources, sc.Stdin = splitSources(r, texts)
		sc.Flags = []string{"-c"}
		if t.Null {
			sc.Flags = append(sc.Flags, "-n")
		}
		sc.Query = t.Query
	case idx < tr.Order+tr.Slurp:
		d.Kind = "slurp-equiv"
		_, texts := idDocs(r, r.Range(0, 6))
		if r.Bool(0.3) {
			texts = genDocs(r, r.Range(0, 6))
		}
		sc.Sources, sc.Stdin = splitSources(r, texts)
		sc.Flags = []string{"-c", "-s"}
		sc.Query = "."
		if r.Bool(0.4) {
			// the slurped value must also behave like `[inputs]` under every operation, not only print alike
			sc.Query = kernel.Pick(r, slurpProbes)
		}
	case idx < tr.Order+tr.Slurp+tr.Raw:
		d.Kind = "raw"
		n := r.Range(0, 6)
		var lines []string
		long := r.Bool(0.25) // lines around and beyond the reader's internal buffer sizes, content not periodic
		for i := 0; i < n; i++ {
			if long && r.Bool(0.5) {
				size := kernel.Pick(r, []int{4094, 4095, 4096, 4097, 5000, 8191, 8192, 8193, 12000, 16384, 20000, 70000})
				var sb strings.Builder
				for k := r.Intn(1000); sb.Len() < size; k++ {
					fmt.Fprintf(&sb, "w%d ", k*7+i)
				}
				lines = append(lines, sb.String()[:size])
				continue
			}
			lines = append(lines, kernel.Pick(r, []string{"", "plain", "with space ", "héllo 日本", `{"not":"json"`, "tab\there", "cr\r", `"quoted"`, "1", "a\x00b"}))
		}
		text := strings.Join(lines, "\n")
		if n > 0 && r.Bool(0.7) {
			text += "\n"
		}
		sc.Stdin = text
		sc.Flags = []string{"-c", "-R"}
		if r.Bool(0.4) {
			sc.Flags = append(sc.Flags, "-s")
		}
		if r.Bool(0.3) && n > 1 {
			k := strings.Index(text, "\n") + 1
			sc.Sources = []Source{{Name: "f", Text: text[:k]}, {Name: "-"}}
			sc.Stdin = text[k:]
		} else if r.Bool(0.4) && len(text) > 1 {
			// two or three sources cut anywhere, also in the middle of a line and right before a newline:
			// -Rs is the whole text, byte for byte; -R lines are per source
			a := r.Intn(len(text) + 1)
			b := a + r.Intn(len(text)-a+1)
			switch r.Intn(3) {
			case 0:
				sc.Sources = []Source{{Name: "f", Text: text[:a]}, {Name: "-"}}
				sc.Stdin = text[a:]
			case 1:
				sc.Sources = []Source{{Name: "-"}, {Name: "g", Text: text[a:]}}
				sc.Stdin = text[:a]
			default:
				sc.Sources = []Source{{Name: "f", Text: text[:a]}, {Name: "-"}, {Name: "g", Text: text[b:]}}
				sc.Stdin = text[a:b]
			}
		}
		sc.Query = "."
	case idx < tr.Order+tr.Slurp+tr.Raw+tr.Malformed:
		d.Kind = "malformed"
		_, texts := idDocs(r, r.Range(1, 6))
		sc.Sources, sc.Stdin = splitSources(r, texts)
		bad := kernel.Pick(r, []string{`{"id":@}`, `[1,`, `tru`, `}`, `"open`, "\x01", `[1 2]`, `{"a" 1}`, `nulll`}) + kernel.Pick(r, []string{"", "\n", "\n{\"id\":77}\n"})
		// put the malformed document at the end of a chosen source
		if len(sc.Sources) == 0 {
			sc.Stdin += bad
		} else {
			k := r.Intn(len(sc.Sources))
			if sc.Sources[k].Name == "-" {
				sc.Stdin += bad
			} else {
				sc.Sources[k].Text += bad
			}
		}
		sc.Flags = []string{"-c"}
		switch r.Intn(4) {
		case 0:
			sc.Query = "."
		case 1:
			sc.Query = ".id"
		case 2:
			sc.Flags = append(sc.Flags, "-n")
			sc.Query = "[inputs | .id]"
		default:
			sc.Flags = append(sc.Flags, "-n")
			sc.Query = "input | .id"
		}
	default:
		d.Kind = "args"
		genArgs(r, &d)
	}
	if d.Kind != "args" && r.Bool(0.15) {
		sc.FromFile = true // -f file equals passing the file's text
	}
	sc.Plan, sc.PlanClass = simio.GenPlan(r, len(sc.Stdin), []int{r.Intn(len(sc.Stdin) + 1)})
	if sp := kernel.NewRand(kernel.Mix(seed, 16, 9, uint64(idx))); sp.Bool(0.35) {
		sc.Spell = sp.Uint64() | 1 // the same flags spelled another way
	}
	return d
}

// slurpProbes: operations under which `-s` and `-n [inputs]` must agree.
var slurpProbes = []string{
	"del(.[0:0])", "del(.[0])", "del(.[-1])", "(.[0] |= empty)", "delpaths([[0], [1]])", "del(.[])", "length", ".[1:]", "map(type)", ". + [1]", "tojson", "(.[0] = 1)", "(.[2] = 1)", "to_entries", "add", "sort", "first(.[]?)", "[paths]", "(.. |= .)", "type", ". == []", "keys", "reverse", "flatten", "[tostream]", "getpath([0])", "(.[] |= .)", "map(select(.id? != 1))", "(.[1:] = [])", "(.[:1] |= map(.))", "[.[]?] == .", "unique", "group_by(type)", "transpose?", "index(null)", "(.[length:] = [9])", "@json", "[limit(1; .[])]", "any, all", "min, max", "implode?", "join(\",\")?", "has(0)", "contains([])", "inside([])", "(. - [null])", "(. - .)", "tostring", "input_line_number?", "(to_entries | from_entries)?", "with_entries(.)?", "walk(.)", "[splits(\"a\")?]", "ltrimstr(\"a\")", "ascii_downcase?", "@csv?", "@sh?", "env | type", "$ENV | type", "[.[] | tojson] | join(\",\")", "path(.[0])", "[path(..)]", "pick(.[0])?", "to_entries | map(.key)", "(reduce .[] as $x (null; . + 1))", "[foreach .[] as $x (0; . + 1)]", "[.[] as [$a] ?// $a | $a]", "@text", "@base64", "fromjson?", "tojson | fromjson", "[.[:0], .[0:], .[:-1]]", "(.[0:0] |= [7])", "del(.[1:])", "del(.[:1])", "to_entries | del(.[0])", "[.[0], .[-1]]", "[first, last]?", "[nth(0)]?", "isvalid(.[0])?", "(.[0] //= 3)", "(.[0] += 1)?", "map(. // 0)", "map(tostring)", "indices(1)", "index(1)?", "combinations?", "getpath([0, \"id\"])?", "[..] | length", "[leaf_paths?]", "tostream | select(length == 2) | .[1]", "fromstream(tostream)",
}

// identityProbe leaves every JSON value as it is but takes containers through the deletion path.
const identityProbe = `(if type == "array" then del(.[0:0]) elif type == "object" then del(.["\u0000 no such key"]) else . end)`

// genArgs builds a scenario over the argument flags whose expected output is
// known by construction.
func genArgs(r *kernel.Rand, d *c16Data) {
	sc := &d.Scenario
	sc.Flags = []string{"-c", "-n"}
	if r.Bool(0.4) {
		// the input mode is about the inputs: it changes nothing about how --slurpfile, --rawfile,
		// --argjson or the positional arguments are read
		sc.Flags = append(sc.Flags, kernel.Pick(r, [][]string{{"--stream"}, {"-R"}, {"-s"}, {"-R", "-s"}, {"--stream", "-s"}})...)
	}
	names := []string{"a", "b", "c", "d"}
	named := map[string]any{}
	order := []string{}
	bind := func(name string, v any) bool {
		if _, dup := named[name]; dup {
			return false // first binding of a name wins
		}
		named[name] = v
		order = append(order, name)
		return true
	}
	nb := r.Range(0, 4)
	for i := 0; i < nb; i++ {
		name := kernel.Pick(r, names)
		switch r.Intn(4) {
		case 0:
			v := kernel.Pick(r, []string{"str", "", "with space", "1", "null", "héllo", `{"x":1}`, "--", "-", "-n", "--arg", "---", "-x", "--args", "--jsonargs", "-f", "--indent", "-s", "--stream"})
			sc.PreArgs = append(sc.PreArgs, "--arg", name, v)
			bind(name, v)
		case 1:
			js := kernel.Pick(r, []string{`1`, `"s"`, `null`, `[1,{"k":false}]`, `{"x":{"y":[]}}`, `100000000000000000000`, `1.0`})
			sc.PreArgs = append(sc.PreArgs, "--argjson", name, js)
			bind(name, json.RawMessage(js))
		case 2:
			docs := genDocs(r, r.Range(0, 3))
			fn := fmt.Sprintf("slurp-%s-%d.json", name, i)
			sc.Files = append(sc.Files, Source{Name: fn, Text: joinDocs(r, docs, true)})
			sc.PreArgs = append(sc.PreArgs, "--slurpfile", name, "@@"+fn)
			bind(name, json.RawMessage("["+strings.Join(docs, ",")+"]"))
		default:
			txt := kernel.Pick(r, []string{"", "raw text\n", "line1\nline2", "{not json"})
			fn := fmt.Sprintf("raw-%s-%d.txt", name, i)
			sc.Files = append(sc.Files, Source{Name: fn, Text: txt})
			sc.PreArgs = append(sc.PreArgs, "--rawfile", name, "@@"+fn)
			bind(name, txt)
		}
	}
	// positional arguments: one to three segments, each introduced by --args or --jsonargs, in
	// command-line order (the flags may alternate)
	var positional []any
	for seg := r.Range(0, 3); seg > 0; seg-- {
		np := r.Range(0, 3)
		if r.Bool(0.5) {
			sc.PostArgs = append(sc.PostArgs, "--args")
			for i := 0; i < np; i++ {
				v := kernel.Pick(r, []string{"p", "1", "two words", "", "null", "[1]", "héllo"})
				sc.PostArgs = append(sc.PostArgs, v)
				positional = append(positional, v)
			}
		} else {
			sc.PostArgs = append(sc.PostArgs, "--jsonargs")
			for i := 0; i < np; i++ {
				js := kernel.Pick(r, []string{`1`, `"s"`, `null`, `[1,2]`, `{"a":null}`, `false`, `100000000000000000000`, `1.0`})
				sc.PostArgs = append(sc.PostArgs, js)
				positional = append(positional, json.RawMessage(js))
			}
		}
	}
	// after the `--` terminator everything is an operand: with --args in effect, dash-leading strings are positional values
	if n := len(sc.PostArgs); n > 0 && r.Bool(0.3) {
		lastArgs := false
		for _, a := range sc.PostArgs {
			if a == "--args" {
				lastArgs = true
			} else if a == "--jsonargs" {
				lastArgs = false
			}
		}
		if lastArgs {
			sc.PostArgs = append(sc.PostArgs, "--")
			for i := r.Range(1, 3); i > 0; i-- {
				v := kernel.Pick(r, []string{"-b", "--c", "--", "-", "--arg", "plain", "-n"})
				sc.PostArgs = append(sc.PostArgs, v)
				positional = append(positional, v)
			}
		}
	}
	// query: every bound name, then $ARGS
	var parts []string
	for _, n := range order {
		parts = append(parts, "$"+n)
	}
	parts = append(parts, "$ARGS.named", "$ARGS.positional")
	if r.Bool(0.4) {
		// pass every bound value through the update machinery with an operation that leaves any JSON
		// value as it is: the values the command binds must behave like in-language values
		for i := range parts {
			parts[i] = "(" + parts[i] + " | " + identityProbe + ")"
		}
	}
	// line terminators inside string-like tokens are data, not layout: `-f file` must compile the
	// file's text as it is
	var rawWants []string
	if r.Bool(0.3) {
		nl := kernel.Pick(r, []string{"\r\n", "\r\n", "\n", "\r", "\r\r\n", "\n\r"})
		esc := strings.NewReplacer("\r", `\r`, "\n", `\n`).Replace(nl)
		parts = append(parts, `"x`+nl+`y"`, `@text "p`+nl+`\(1)`+nl+`"`, `{"k`+nl+`": 1}`, "1 # comment"+nl+"+ 1")
		rawWants = []string{`"x` + esc + `y"`, `"p` + esc + `1` + esc + `"`, `{"k` + esc + `":1}`, "2"}
	}
	sc.Query = "[" + strings.Join(parts, ", ") + "]"
	sc.FromFile = r.Bool(0.3)
	// expected, by construction
	enc := func(v any) string {
		switch v := v.(type) {
		case json.RawMessage:
			return canon(string(v))
		case string:
			bs, _ := gojq.Marshal(v)
			return string(bs)
		}
		return "null"
	}
	var want []string
	for _, n := range order {
		want = append(want, enc(named[n]))
	}
	ks := make([]string, 0, len(named))
	for k := range named {
		ks = append(ks, k)
	}
	sortStrings(ks)
	var kv []string
	for _, k := range ks {
		kb, _ := gojq.Marshal(k)
		kv = append(kv, string(kb)+":"+enc(named[k]))
	}
	want = append(want, "{"+strings.Join(kv, ",")+"}")
	var ps []string
	for _, p := range positional {
		ps = append(ps, enc(p))
	}
	want = append(want, "["+strings.Join(ps, ",")+"]")
	want = append(want, rawWants...)
	d.Want = "[" + strings.Join(want, ",") + "]\n"
}

func sortStrings(ks []string) {
	for i := 1; i < len(ks); i++ {
		for j := i; j > 0 && ks[j] < ks[j-1]; j-- {
			ks[j], ks[j-1] = ks[j-1], ks[j]
		}
	}
}

// canon re-renders a JSON text compactly with sorted keys (numbers keep their literal).
func canon(js string) string {
	dec := json.NewDecoder(strings.NewReader(js))
	dec.UseNumber()
	var v any
	if err := dec.Decode(&v); err != nil {
		return "<bad json " + js + ">"
	}
	return Render(v, true, "", 0)
}

// ---- judging ----------------------------------------------------------------------------------

func c16viol(d *c16Data, class, format string, args ...any) *kernel.Violation {
	sc := &d.Scenario
	var sb strings.Builder
	fmt.Fprintf(&sb, "kind=%s argv=%q\nstdin=%q plan=%s\n", d.Kind, sc.argvForDisplay(), kernel.Short2(sc.Stdin, 300), sc.PlanClass)
	for i, s := range sc.Sources {
		if s.Name != "-" {
			fmt.Fprintf(&sb, "source %d (file)=%q\n", i, kernel.Short2(s.Text, 300))
		} else {
			fmt.Fprintf(&sb, "source %d = stdin\n", i)
		}
	}
	return &kernel.Violation{Property: "C16", Class: class, Case: kernel.NewCase("C16", d.Kind, d), Detail: sb.String() + fmt.Sprintf(format, args...)}
}

func allDocs(sc *Scenario) (vals []any, ok bool) {
	for _, t := range sc.sourceTexts() {
		for _, it := range parseJSONSource(t) {
			if it.isErr {
				return nil, false
			}
			vals = append(vals, normalise(it.val))
		}
	}
	return vals, true
}

// normalise turns json.Number ids into ints so that the hand-written evaluators can compute with them.
func normalise(v any) any {
	switch v := v.(type) {
	case map[string]any:
		if n, ok := v["id"].(json.Number); ok {
			if i, err := n.Int64(); err == nil {
				w := map[string]any{}
				for k, x := range v {
					w[k] = x
				}
				w["id"] = int(i)
				return w
			}
		}
	}
	return v
}

func judgeC16(d *c16Data, res Result) *kernel.Violation {
	sc := &d.Scenario
	if res.Panicked != "" {
		return c16viol(d, "panic", "the command panicked: %s", res.Panicked)
	}
	switch d.Kind {
	case "order":
		docs, ok := allDocs(sc)
		if !ok {
			return nil
		}
		outs, errEnd := orderTemplates[d.Template].eval(docs)
		want, status := expectedFrom(outs, errEnd)
		if res.Stdout != want {
			return c16viol(d, "order", "`%s` over %d documents: stdout differs from the sequential queue model (each value consumed exactly once, in stream order)\n got: %q\nwant: %q", sc.Query, len(docs), kernel.Short2(res.Stdout, 500), kernel.Short2(want, 500))
		}
		if res.Exit != status {
			return c16viol(d, "status", "`%s` over %d documents: exit %d, expected %d (input past the end is an error)", sc.Query, len(docs), res.Exit, status)
		}
		if (status == 0) != (res.Stderr == "") {
			return c16viol(d, "stderr", "stderr %q with status %d", kernel.Short2(res.Stderr, 300), status)
		}
	case "slurp-equiv":
		alt := *sc
		alt.Flags = []string{"-c", "-n"}
		alt.Query = "[inputs]"
		if sc.Query != "." {
			alt.Query = "[inputs] | " + sc.Query
		}
		r2 := alt.Run()
		if r2.Panicked != "" {
			return c16viol(d, "panic", "the command panicked on -n [inputs]: %s", r2.Panicked)
		}
		if res.Stdout != r2.Stdout || res.Exit != r2.Exit {
			return c16viol(d, "slurp-equiv", "`-s Q` and `-n [inputs] | Q` differ for Q = %s\n-s Q             : exit %d %q\n-n [inputs] | Q  : exit %d %q", sc.Query, res.Exit, kernel.Short2(res.Stdout, 400), r2.Exit, kernel.Short2(r2.Stdout, 400))
		}
		if sc.Query != "." {
			return nil
		}
		// and both equal the array of all documents
		var docs []string
		for _, t := range sc.sourceTexts() {
			ds, ok := kernel.ParseJSONStream(t)
			if !ok {
				return nil
			}
			docs = append(docs, ds...)
		}
		want := canon("["+strings.Join(docs, ",")+"]") + "\n"
		if res.Stdout != want {
			return c16viol(d, "slurp", "`-s .` does not print the array of all documents\n got: %q\nwant: %q", kernel.Short2(res.Stdout, 400), kernel.Short2(want, 400))
		}
	case "raw":
		text := strings.Join(sc.sourceTexts(), "")
		var want strings.Builder
		if sc.has("-s") {
			bs, _ := gojq.Marshal(text)
			want.Write(bs)
			want.WriteString("\n")
		} else {
			// lines are per source: a source that does not end in a newline still ends its last line
			for _, t := range sc.sourceTexts() {
				for _, it := range parseRawSource(t) {
					bs, _ := gojq.Marshal(it.val)
					want.Write(bs)
					want.WriteString("\n")
				}
			}
		}
		if res.Stdout != want.String() || res.Exit != 0 {
			return c16viol(d, "raw", "-R%s: exit %d\n got: %q\nwant: %q", map[bool]string{true: "s", false: ""}[sc.has("-s")], res.Exit, kernel.Short2(res.Stdout, 400), kernel.Short2(want.String(), 400))
		}
	case "malformed":
		exp, err := sc.Model(Vars{})
		if err != nil {
			return nil
		}
		if res.Stdout != exp.Stdout {
			return c16viol(d, "malformed", "a malformed document must yield every complete value before it, one error, then the end of that source\n got: %q\nwant: %q", kernel.Short2(res.Stdout, 500), kernel.Short2(exp.Stdout, 500))
		}
		if res.Exit != exp.Status {
			return c16viol(d, "status", "exit %d, expected %d", res.Exit, exp.Status)
		}
		if n := countDiagnostics(res.Stderr); n != exp.Diagnostics {
			return c16viol(d, "stderr", "%d diagnostics, expected %d: %q", n, exp.Diagnostics, kernel.Short2(res.Stderr, 500))
		}
	case "args":
		if res.Stdout != d.Want || res.Exit != 0 || res.Stderr != "" {
			return c16viol(d, "args", "exit %d stderr %q\n got: %q\nwant: %q", res.Exit, kernel.Short2(res.Stderr, 300), kernel.Short2(res.Stdout, 500), kernel.Short2(d.Want, 500))
		}
	case "stream":
		return judgeStream(d, res)
	}
	return nil
}

// judgeStream: events of the truncated text per the recursive-descent model,
// then one error unless the cut is at a document boundary.
func judgeStream(d *c16Data, res Result) *kernel.Violation {
	sc := &d.Scenario
	var items []item // per source: the path state starts afresh in every file
	for _, t := range sc.sourceTexts() {
		items = append(items, streamEvents(t)...)
	}
	var want strings.Builder
	errs := 0
	var evs []any
	for _, it := range items {
		if it.isErr {
			errs++
			continue
		}
		evs = append(evs, it.val)
		want.WriteString(Render(it.val, true, "", 0))
		want.WriteString("\n")
	}
	if d.Retain != "" {
		// the events are retained by the consumer while later ones are produced: an event must not
		// change after it has been delivered
		want.Reset()
		switch {
		case errs > 0 && d.Retain != "pairs":
		case d.Retain == "pairs":
			// input as $a | input as $b | [$a, $b], then the rest one by one
			if len(evs) >= 2 {
				want.WriteString(Render([]any{evs[0], evs[1]}, true, "", 0) + "\n")
				want.WriteString(Render(arr(evs[2:]), true, "", 0) + "\n")
			}
			if len(evs) < 2 || errs > 0 {
				errs = 1
				if len(evs) >= 2 {
					// the error surfaces while collecting the rest: the pair was already printed
					want.Reset()
					want.WriteString(Render([]any{evs[0], evs[1]}, true, "", 0) + "\n")
				}
			}
		default:
			want.WriteString(Render(arr(evs), true, "", 0) + "\n")
		}
		if errs > 0 {
			errs = 1
		}
		if res.Stdout != want.String() {
			return c16viol(d, "stream-retained", "document %q cut at %d, events retained (%s): output differs from the event model\n got: %q\nwant: %q", kernel.Short2(d.Doc, 200), d.Cut, d.Retain, kernel.Short2(res.Stdout, 500), kernel.Short2(want.String(), 500))
		}
		wantExit := 0
		if errs > 0 {
			wantExit = 5
		}
		if res.Exit != wantExit {
			return c16viol(d, "stream-status", "document %q cut at %d, events retained (%s): exit %d, expected %d", kernel.Short2(d.Doc, 200), d.Cut, d.Retain, res.Exit, wantExit)
		}
		return nil
	}
	if res.Stdout != want.String() {
		return c16viol(d, "stream-events", "document %q cut at %d: the events differ from the event model of the delivered text\n got: %q\nwant: %q", kernel.Short2(d.Doc, 200), d.Cut, kernel.Short2(res.Stdout, 500), kernel.Short2(want.String(), 500))
	}
	wantExit := 0
	if errs > 0 {
		wantExit = 5
	}
	if res.Exit != wantExit || countDiagnostics(res.Stderr) != errs {
		return c16viol(d, "stream-status", "document %q cut at %d: exit %d with %d diagnostics, expected exit %d with %d", kernel.Short2(d.Doc, 200), d.Cut, res.Exit, countDiagnostics(res.Stderr), wantExit, errs)
	}
	if d.Cut < len(d.Doc) || errs > 0 || len(sc.Sources) > 0 {
		return nil
	}
	// untruncated: fromstream over the printed events rebuilds every document, and for
	// sorted-key documents the events are the library's tostream
	docs, ok := kernel.ParseJSONStream(d.Doc)
	if !ok {
		return nil
	}
	rebuilt, err := libRun(`fromstream(inputs)`, nil, strings.Split(strings.TrimSpace(res.Stdout), "\n"))
	if err != nil {
		return c16viol(d, "stream-fromstream", "fromstream over the printed events failed: %v", err)
	}
	var wantDocs []string
	for _, dd := range docs {
		wantDocs = append(wantDocs, canon(dd))
	}
	if strings.Join(rebuilt, "\n") != strings.Join(wantDocs, "\n") {
		return c16viol(d, "stream-fromstream", "fromstream over the printed events does not rebuild the documents\n got: %q\nwant: %q", kernel.Short2(strings.Join(rebuilt, "\n"), 400), kernel.Short2(strings.Join(wantDocs, "\n"), 400))
	}
	if sortedKeys(d.Doc) {
		ts, err := libRun(`tostream`, docs, nil)
		if err == nil && strings.Join(ts, "\n")+"\n" != res.Stdout && !(len(ts) == 0 && res.Stdout == "") {
			return c16viol(d, "stream-tostream", "the events differ from the library's tostream on a document with sorted keys\n got: %q\nwant: %q", kernel.Short2(res.Stdout, 400), kernel.Short2(strings.Join(ts, "\n"), 400))
		}
	}
	return nil
}

// libRun runs a query in the library over JSON texts (as inputs, or through the input iterator).
func libRun(query string, inputs []string, viaInputs []string) (outs []string, err error) {
	q, err := gojq.Parse(query)
	if err != nil {
		return nil, err
	}
	parse := func(s string) any {
		dec := json.NewDecoder(strings.NewReader(s))
		dec.UseNumber()
		var v any
		dec.Decode(&v)
		return v
	}
	var qi []any
	for _, s := range viaInputs {
		if strings.TrimSpace(s) != "" {
			qi = append(qi, parse(s))
		}
	}
	code, err := gojq.Compile(q, gojq.WithInputIter(gojq.NewIter(qi...)))
	if err != nil {
		return nil, err
	}
	run := func(in any) error {
		it := code.Run(in)
		for {
			v, ok := it.Next()
			if !ok {
				return nil
			}
			if e, ok := v.(error); ok {
				return e
			}
			outs = append(outs, Render(v, true, "", 0))
		}
	}
	if inputs == nil {
		return outs, run(nil)
	}
	for _, s := range inputs {
		if err := run(parse(s)); err != nil {
			return outs, err
		}
	}
	return outs, nil
}

// sortedKeys reports whether every object of the text lists its keys in sorted order.
func sortedKeys(text string) bool {
	dec := json.NewDecoder(strings.NewReader(text))
	var check func() bool
	check = func() bool {
		tok, err := dec.Token()
		if err != nil {
			return false
		}
		d, ok := tok.(json.Delim)
		if !ok {
			return true
		}
		prev, first := "", true
		for dec.More() {
			if d == '{' {
				k, err := dec.Token()
				if err != nil {
					return false
				}
				ks := k.(string)
				if !first && ks <= prev {
					return false
				}
				prev, first = ks, false
			}
			if !check() {
				return false
			}
		}
		dec.Token()
		return true
	}
	for dec.More() {
		if !check() {
			return false
		}
	}
	return true
}

// genStreamDoc generates a document text for --stream: objects in arbitrary key
// order, empty containers at every position, top-level scalars, siblings after
// nested closes, several documents.
func genStreamDoc(r *kernel.Rand) string {
	var val func(depth int) string
	n := 0
	val = func(depth int) string {
		n++
		if depth <= 0 || r.Bool(0.3) {
			return kernel.Pick(r, []string{"1", "null", "true", `"s"`, "[]", "{}", "-2.5", `"é"`, "0", "false", `""`, "1e3", "[[]]", `{"e":{}}`})
		}
		if r.Bool(0.5) {
			k := r.Range(0, 3)
			xs := make([]string, k)
			for i := range xs {
				xs[i] = val(depth - 1)
			}
			return "[" + strings.Join(xs, kernel.Pick(r, []string{",", ", ", " ,\n"})) + "]"
		}
		k := r.Range(0, 3)
		perm := r.Perm(5)
		xs := make([]string, k)
		for i := range xs {
			xs[i] = fmt.Sprintf("%q:%s", string(rune('a'+perm[i])), val(depth-1))
		}
		return "{" + strings.Join(xs, ",") + "}"
	}
	nd := r.Weighted([]int{0, 6, 3, 1})
	var docs []string
	for i := 0; i < nd; i++ {
		docs = append(docs, val(r.Range(0, 5)))
	}
	return joinDocs(r, docs, r.Bool(0.5))
}

func (C16) Exec(c kernel.Case) *kernel.Violation {
	var d c16Data
	if err := c.Decode(&d); err != nil {
		return &kernel.Violation{Property: "C16", Class: "bad-case", Detail: err.Error(), Case: c}
	}
	if d.Kind == "args" {
		// the scenario names scratch files created at generation time: regenerate them
		return judgeC16(&d, d.Scenario.Run())
	}
	return judgeC16(&d, d.Scenario.Run())
}

func (C16) RunUnit(env *kernel.Env, unit int) {
	out := env.Out
	tr := c16tier(env.Tier)
	plainUnits := (tr.Order + tr.Slurp + tr.Raw + tr.Malformed + tr.Args) / c16Unit
	record := func(d *c16Data, res Result, v *kernel.Violation) {
		out.Inc("evaluations")
		out.Inc("kind_" + d.Kind)
		out.Add("reads", int64(res.Reads))
		out.Add("stdin_bytes_delivered", int64(res.Delivered))
		out.Inc("plan_" + d.Scenario.PlanClass)
		if len(d.Scenario.Sources) > 1 {
			out.Inc("split_over_several_sources")
		}
		out.Distinct("nontrivial", fmt.Sprint(d.Kind, d.Scenario, d.Cut))
		if v != nil {
			out.Violate(v)
		}
	}
	if unit < plainUnits {
		for k := 0; k < c16Unit; k++ {
			d := genC16(env.Seed, env.Tier, unit*c16Unit+k)
			out.Mark(kernel.NewCase("C16", d.Kind, d))
			res := d.Scenario.Run()
			v := judgeC16(&d, res)
			record(&d, res, v)
			if out.WantSample() && k == 0 {
				out.Sample(map[string]any{"kind": d.Kind, "argv": d.Scenario.argvForDisplay(), "stdin": kernel.Short2(d.Scenario.Stdin, 200), "plan": d.Scenario.PlanClass, "stdout": kernel.Short2(res.Stdout, 160), "exit": res.Exit})
			}
		}
		return
	}
	// --stream: every truncation offset of each generated document, several delivery schedules
	r := kernel.NewRand(kernel.Mix(env.Seed, 16, 2, uint64(unit)))
	for k := 0; k < streamPerUnit; k++ {
		doc := genStreamDoc(r)
		for cut := 0; cut <= len(doc); cut++ {
			nplans := 2
			if cut == len(doc) {
				nplans = 6
			}
			for p := 0; p < nplans; p++ {
				d := c16Data{Kind: "stream", Doc: doc, Cut: cut}
				sc := &d.Scenario
				sc.WriteFail = -1
				sc.Flags = []string{"-c", "--stream"}
				sc.Query = "."
				sc.Stdin = doc[:cut]
				sc.Plan, sc.PlanClass = simio.GenPlan(r, len(sc.Stdin), []int{max(0, cut-1)})
				out.Mark(kernel.NewCase("C16", d.Kind, d))
				res := sc.Run()
				v := judgeC16(&d, res)
				record(&d, res, v)
				if cut < len(doc) {
					out.Inc("fault_truncated_inside_stream")
				}
				if v != nil {
					break
				}
			}
			// the same text with the events retained by the consumer
			if cut == len(doc) || cut%3 == 0 {
				for _, retain := range []string{"collect", "slurp", "pairs"} {
					d := c16Data{Kind: "stream", Doc: doc, Cut: cut, Retain: retain}
					sc := &d.Scenario
					sc.WriteFail = -1
					sc.Stdin = doc[:cut]
					switch retain {
					case "collect":
						sc.Flags, sc.Query = []string{"-c", "--stream", "-n"}, "[inputs]"
					case "slurp":
						sc.Flags, sc.Query = []string{"-c", "--stream", "-s"}, "."
					default:
						sc.Flags, sc.Query = []string{"-c", "--stream", "-n"}, "input as $a | input as $b | [$a, $b], [inputs]"
					}
					sc.Plan, sc.PlanClass = simio.GenPlan(r, len(sc.Stdin), []int{max(0, cut-1)})
					out.Mark(kernel.NewCase("C16", d.Kind, d))
					res := sc.Run()
					v := judgeC16(&d, res)
					record(&d, res, v)
					out.Inc("stream_events_retained_" + retain)
				}
			}
		}
		// the stream split over a file and stdin (either order), the second part possibly truncated
		{
			other := genStreamDoc(r)
			cut := len(other)
			if r.Bool(0.5) && cut > 0 {
				cut = r.Intn(cut + 1)
			}
			d := c16Data{Kind: "stream", Doc: doc + other, Cut: len(doc) + cut}
			sc := &d.Scenario
			sc.WriteFail = -1
			sc.Flags, sc.Query = []string{"-c", "--stream"}, "."
			if r.Bool(0.5) {
				sc.Sources = []Source{{Name: "f", Text: doc}, {Name: "-"}}
				sc.Stdin = other[:cut]
			} else {
				sc.Sources = []Source{{Name: "-"}, {Name: "f", Text: other[:cut]}}
				sc.Stdin = doc
			}
			sc.Plan, sc.PlanClass = simio.GenPlan(r, len(sc.Stdin), nil)
			out.Mark(kernel.NewCase("C16", d.Kind, d))
			res := sc.Run()
			v := judgeC16(&d, res)
			record(&d, res, v)
			out.Inc("stream_split_over_sources")
		}
		out.Inc("stream_documents_every_offset")
	}
}

func (C16) Shrink(c kernel.Case) []kernel.Case {
	var d c16Data
	if c.Decode(&d) != nil {
		return nil
	}
	if d.Kind == "args" {
		return nil
	}
	fixed := d.Kind == "order" || d.Kind == "stream" || d.Kind == "slurp-equiv" || d.Kind == "raw"
	return shrinkScenario(&d.Scenario, fixed, func(s Scenario) kernel.Case {
		e := d
		e.Scenario = s
		if d.Kind == "stream" {
			e.Doc, e.Cut = s.Stdin, len(s.Stdin)
		}
		return kernel.NewCase("C16", d.Kind, e)
	})
}

func (C16) Describe(ev *kernel.Evidence) {
	st := ev.Coverage["stats"].(map[string]int64)
	sets := ev.Coverage["distinct_sets"].(map[string]int)
	ev.Coverage["evaluations"] = st["evaluations"]
	ev.Coverage["distinct_nontrivial"] = sets["nontrivial"]
	ev.Coverage["rule"] = "one evaluation = one in-process run of the command on simulated stdin (seeded delivery schedule) plus scratch files; kinds: order (input/inputs against a hand-written sequential queue model over documents with unique ids split over 1-4 sources), slurp-equiv (`-s .` vs `-n [inputs]`), raw (-R/-Rs against strings.Split), stream (every truncation offset of each generated document against a recursive-descent event model, plus fromstream/tostream on the untruncated text), malformed (every complete value, one error, end of that source), args (argument flags; sampled configurations, expected output known by construction); distinct = distinct (kind, scenario, cut)"
	fk := map[string]int64{}
	for k, v := range st {
		if strings.HasPrefix(k, "fault_") || strings.HasPrefix(k, "kind_") || strings.HasPrefix(k, "plan_") {
			fk[k] = v
		}
	}
	ev.Coverage["fault_kinds"] = fk
	ev.Coverage["simulated_time"] = map[string]any{"read_calls": st["reads"], "stdin_bytes_delivered": st["stdin_bytes_delivered"]}
	ev.Coverage["components"] = map[string]string{
		"real":      "gojq command (input iterators, multi-file iterator, slurp wrappers, stream parser, flag parser), gojq library, encoding/json, regular files in a scratch directory",
		"simulated": "stdin (delivery schedule, truncation at every byte for --stream), stdout, stderr",
		"model":     "sequential queue model written without the library (order), recursive-descent event model over json.Decoder.Token (stream), strings.Split (raw)",
	}
	ev.Assumptions = []string{
		"`end of input` after a malformed document is read as the end of that source: later files are still processed (DESIGN.md 3.6)",
		"the argument flags (--arg, --argjson, --slurpfile, --rawfile, --args, --jsonargs, -f) have no schedule or fault in them: they are sampled configurations",
		"the stream event model shares encoding/json's tokenizer with the implementation but not its state machine",
	}
}
