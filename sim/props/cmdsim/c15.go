package cmdsim

import (
	"encoding/json"
	"fmt"
	"io"
	"math"
	"strconv"
	"strings"

	"verif/sim/kernel"
	"verif/sim/seams/simio"
)

// C15 -----------------------------------------------------------------------------

type C15 struct{}

func (C15) ID() string    { return "C15" }
func (C15) Level() string { return "exploration" }

type c15Data struct {
	Scenario Scenario `json:"scenario"`
	Batch    string   `json:"batch"` // delivery | truncation | read-error | write-fault
}

func c15tier(t string) int {
	if t == "thorough" {
		return 5000000
	}
	return 150000
}

const c15Unit = 250

func (C15) Units(t string, seed uint64) int { return c15tier(t) / c15Unit }

var docPool = []string{
	`{"id":%d,"v":null}`, `{"id":%d,"v":[1,{"a":[]}],"w":"x"}`, `{"id":%d}`, `{"id":%d,"v":false}`, `{"id":%d,"v":"a\u0000b"}`,
	`{"id":%d,"v":100000000000000000000,"f":1.0}`, `{"id":%d,"v":{"z":1,"a":{"k":[true,null]}}}`, `{"id":%d,"v":"héllo\n"}`,
}

var deepDoc = strings.Repeat("[", 20) + `{"a":` + strings.Repeat(`{"b":[`, 6) + "1" + strings.Repeat("]}", 6) + "}" + strings.Repeat("]", 20)

var scalarDocs = []string{deepDoc, `1.0`, `1e3`, `1E+2`, `-0`, `-0.0`, `0.1e-7`, `1.5e300`, `1e1000`, `-1e1000`, `123456789012345678901234567890`, `1.000000000000000000001`, `[1.10, 2e0, 3E-2]`, `{"n":0.30000000000000004}`, `5e-324`, `{"a":1,"a":2}`, " \t[ 1 ,\r\n 2 ]\t", `null`, `false`, `true`, `0`, `1.50`, `"str"`, `"a\u0000b"`, `[]`, `{}`, `[1,[2]]`, `100000000000000000000`, `-0`, `"multi\nline"`, `[null,false]`}

// bigDoc is a document larger than the decoder's and the encoder's internal buffers.
func bigDoc(r *kernel.Rand, id int) string {
	n := kernel.Pick(r, []int{300, 600, 1500, 5000})
	var sb strings.Builder
	fmt.Fprintf(&sb, `{"id":%d,"big":[`, id)
	for i := 0; i < n; i++ {
		if i > 0 {
			sb.WriteString(",")
		}
		switch i % 4 {
		case 0:
			fmt.Fprintf(&sb, "%d", i*7+id)
		case 1:
			fmt.Fprintf(&sb, `"s%d é"`, i)
		case 2:
			fmt.Fprintf(&sb, `{"k%d":[%d,null]}`, i, i)
		default:
			fmt.Fprintf(&sb, "%d.5", i)
		}
	}
	sb.WriteString("]}")
	return sb.String()
}

// floatLiteral draws a float64 from every rendering class (integral values on both sides of 2^53,
// the fixed/exponent notation thresholds, subnormals, huge values, short and long mantissas) and
// returns it as a jq number literal, which the query evaluates to a computed float64.
func floatLiteral(r *kernel.Rand) string {
	var f float64
	switch r.Intn(8) {
	case 0: // integral, around and above 2^53
		f = math.Ldexp(float64(1+r.Intn(1<<20))+float64(r.Intn(1<<20))/(1<<20), r.Range(33, 50))
		f = math.Floor(f)
	case 1: // integral, 2^53 .. 2^70
		f = math.Floor(math.Ldexp(1+r.Float(), r.Range(53, 70)))
	case 2: // near the notation thresholds
		f = kernel.Pick(r, []float64{1e-7, 1e-6, 1e-5, 1e15, 1e16, 1e17, 1e20, 1e21, 1e22}) * (1 + (r.Float()-0.5)/float64(kernel.Pick(r, []int{1, 1000, 1000000000})))
	case 3: // any exponent
		f = math.Ldexp(1+r.Float(), r.Range(-1074, 1023))
	case 4: // short decimal mantissas
		f = float64(r.Range(1, 9999)) * math.Pow(10, float64(r.Range(-30, 30)))
	case 5: // subnormal
		f = math.Ldexp(float64(1+r.Intn(1000)), -1074)
	case 6: // small integral floats and halves
		f = float64(r.Range(-100000, 100000)) / float64(kernel.Pick(r, []int{1, 2, 4, 8, 10, 3}))
	default: // neighbours of powers of two
		f = math.Nextafter(math.Ldexp(1, r.Range(-60, 80)), float64(r.Range(-1, 1)*2)*math.MaxFloat64)
	}
	if r.Bool(0.3) {
		f = -f
	}
	s := strconv.FormatFloat(f, 'e', -1, 64)
	if !strings.ContainsAny(s, ".") { // make sure the literal is read as a float, not an integer
		s = strings.Replace(s, "e", ".0e", 1)
	}
	return s
}

// trickyString: 0-40 characters over an alphabet of everything an encoder treats specially
// (controls, DEL, quote, backslash, U+2028, multi-byte, astral), so that specials fall at every
// offset of strings of every small length. Returned as a JSON string literal.
func trickyString(r *kernel.Rand) string {
	alphabet := []string{"a", "b", "z", " ", "0", `\u007f`, `\u0000`, `\u001f`, `\n`, `\t`, `\"`, `\\`, "/", "<", ">", "&", "é", "日", "😀", `\u2028`, `\ufffd`, "~", "}", `\u0080`, `\u00ff`, "\x7f"}
	n := r.Range(0, 40)
	var sb strings.Builder
	sb.WriteString(`"`)
	for i := 0; i < n; i++ {
		if r.Bool(0.75) {
			sb.WriteString(kernel.Pick(r, []string{"a", "b", "c", "x", "y", "0", " "}))
		} else {
			sb.WriteString(kernel.Pick(r, alphabet))
		}
	}
	sb.WriteString(`"`)
	return sb.String()
}

// numberLiteral: a number as it may be spelled in an input document; the command passes literals
// through verbatim whatever their length (lengths around the sizes of formatting buffers).
func numberLiteral(r *kernel.Rand) string {
	digits := func(n int) string {
		var sb strings.Builder
		for i := 0; i < n; i++ {
			d := r.Intn(10)
			if i == 0 && d == 0 {
				d = 1 + r.Intn(9)
			}
			sb.WriteByte(byte('0' + d))
		}
		return sb.String()
	}
	n := kernel.Pick(r, []int{1, 2, 9, 15, 16, 17, 19, 20, 31, 32, 33, 62, 63, 64, 65, 66, 100, 127, 128, 129, 255, 256, 257, 400, 1000, 5000})
	var s string
	switch r.Intn(7) {
	case 0:
		s = digits(n)
	case 1:
		s = digits(1+r.Intn(3)) + "." + digits(n)
	case 2:
		s = "0." + strings.Repeat("0", r.Intn(n+1)) + digits(1+r.Intn(n))
	case 3:
		s = digits(n) + kernel.Pick(r, []string{"e", "E", "e+", "E-", "e-"}) + kernel.Pick(r, []string{"0", "1", "5", "005", "17", "300"})
	case 4:
		s = digits(1) + "." + digits(n) + kernel.Pick(r, []string{"e", "E+", "e-"}) + strconv.Itoa(r.Intn(400))
	case 5:
		s = digits(n) + "." + strings.Repeat("0", 1+r.Intn(5))
	default:
		s = kernel.Pick(r, []string{"0", "0.0", "0e0", "0E-0", "1e0", "1.0e0", "10e-1", "0.10", "1.50", "100e-2", "1E400", "1e-400", "0.0e400"})
	}
	if r.Bool(0.3) {
		s = "-" + s
	}
	return s
}

func genDocs(r *kernel.Rand, n int) []string {
	docs := make([]string, n)
	for i := range docs {
		if r.Bool(0.1) {
			switch r.Intn(3) {
			case 0:
				docs[i] = numberLiteral(r)
			case 1:
				docs[i] = fmt.Sprintf(`{"id":%d,"v":%s,"w":[%s]}`, i+1, numberLiteral(r), numberLiteral(r))
			default:
				docs[i] = "[" + numberLiteral(r) + "," + numberLiteral(r) + ",{\"n\":" + numberLiteral(r) + "}]"
			}
			continue
		}
		if r.Bool(0.12) {
			switch r.Intn(3) {
			case 0:
				docs[i] = trickyString(r)
			case 1:
				docs[i] = fmt.Sprintf(`{"id":%d,"v":%s,%s:[%s]}`, i+1, trickyString(r), trickyString(r), trickyString(r))
			default:
				docs[i] = "[" + trickyString(r) + "," + trickyString(r) + "]"
			}
			continue
		}
		if r.Bool(0.04) {
			docs[i] = bigDoc(r, i+1)
			continue
		}
		if r.Bool(0.7) {
			docs[i] = fmt.Sprintf(kernel.Pick(r, docPool), i+1)
		} else {
			docs[i] = kernel.Pick(r, scalarDocs)
		}
	}
	return docs
}

var seps = []string{"\n", "\n", " ", "\n\n", "\r\n", "\t", "  \n"}

func joinDocs(r *kernel.Rand, docs []string, trailing bool) string {
	var sb strings.Builder
	for i, d := range docs {
		sb.WriteString(d)
		if i < len(docs)-1 || trailing {
			sb.WriteString(kernel.Pick(r, seps))
		}
	}
	return sb.String()
}

var c15Items = []string{
	`.`, `.`, `.id?`, `.v?`, `empty`, `null`, `false`, `true`, `1`, `"s"`, `"raw\nstring"`, `"nul\u0000inside"`, `[.]`, `{a:.}`, `[]`, `{}`, `[1,[2,{"b":null}]]`,
	`error("boom")`, `error(null)`, `error({e:1})`, `error`, `halt`, `halt_error`, `("bye\n"|halt_error)`, `({m:1}|halt_error)`, `halt_error(3)`, `("x"|halt_error(300))`, `(1|halt_error(0))`,
	`.[]?`, `(.v?|.[]?)`, `tojson`, `(.id?|tostring)`, `(select(.id? == %d) | error("on id"))`, `(select(.id? == %d) | halt_error(7))`, `(select(.id? == %d) | halt)`,
	`(select(.id? == %d) | "hit")`, `(.v? // "alt")`, `(try error("c") catch .)`, `(.id? | select(. != null) | . * 2)`, `100000000000000000000`, `1.0`, `(.v? | select(type == "string"))`,
	`input`, `(try input catch "none")`, `[limit(1; inputs)]`, `(1/0)?`, `(. as $x | $x)`, `$__loc__.line`, `input_line_number`,
	// builtins that write to stderr only
	`debug`, `(debug | .id?)`, `debug("msg")`, `stderr`, `("to stderr" | stderr | empty)`, `(.v? | debug | empty)`, `([1,2] | debug(.[0]) | .[1])`,
	// halt is not an ordinary error: nothing catches it, and it stops everything at once
	`(try halt_error catch "caught")`, `(try halt catch "caught")`, `(halt_error | 1)`, `first(halt_error)`, `[halt]`, `reduce (1, halt) as $x (0; 1)`, `(label $l | halt_error)`, `(halt_error(1) // 2)`, `(halt?)`,
	`(.[]? | halt)`, `({a:1} | halt_error)`, `([1,"x"] | halt_error(2))`, `(null | halt_error)`, `("no newline" | halt_error(5))`, `(1.50 | halt_error)`, `(select(.id? == %d) | {id} | halt_error(256))`, `(select(.id? == %d) | "m\n" | halt_error(-1))`,
	// numbers of every rendering class
	`(1/3)`, `1e1000`, `-1e1000`, `nan`, `[nan]`, `infinite`, `(.1 + .2)`, `1e17`, `1e-7`, `3.0`, `[1e6, 1e21, 1e-6, 1e-7, 1.5e300, 5e-324]`, `123456789012345678901234567890`, `(100000000000000000000 + 1)`, `-0`, `(0 * -1)`, `1.000`, `1E+2`, `0.10`,
	`(.v? | numbers)`, `[.. | numbers]`, `(.f? // empty)`, `(9007199254740993 | ., . + 1)`, `[limit(3; range(1; 10; 0.1))]`, `(1e3 | ., floor, tostring)`,
	// outputs larger than the encoder's flush threshold
	`reduce range(40) as $i (.; [.])`, `reduce range(12) as $i (1; {a: [.]})`, `[range(2500)]`, `("x" * 9000)`, `[range(400) | {a: ., b: "str é"}]`, `(.big? | length)`, `[.big?[]? | tostring] | join(",")`, `{a: [range(1200)], b: .id?}`,
}

func genC15Query(r *kernel.Rand, ndocs int, allowInput bool) string {
	n := r.Weighted([]int{0, 5, 4, 3, 2})
	var parts []string
	for len(parts) < n {
		it := kernel.Pick(r, c15Items)
		if strings.Contains(it, "input") && !allowInput {
			continue
		}
		if strings.Contains(it, "%d") {
			it = fmt.Sprintf(it, r.Range(1, max(1, ndocs)))
		}
		if r.Bool(0.06) {
			it = kernel.Pick(r, []string{"%s", "[%s]", "{k: %s}", "{(%s): 1}"})
			it = fmt.Sprintf(it, trickyString(r))
		}
		if r.Bool(0.08) {
			f := floatLiteral(r)
			it = strings.ReplaceAll(kernel.Pick(r, []string{"F", "[F, -(F)]", "{f: F}", "(F | ., . * 2, . / 3, floor)", "(F | tostring, tojson)", "(F + (.id? // 0))", "[F] | .[0]", "(F | debug)"}), "F", f)
		}
		parts = append(parts, it)
	}
	return strings.Join(parts, ", ")
}

var outFlagSets = [][]string{{}, {"-c"}, {"-r"}, {"-j"}, {"--raw-output0"}, {"-c", "-r"}, {"--tab"}, {"--indent"}, {"-r", "--indent"}, {"-c", "--raw-output0"}, {"--tab", "-j"}, {"-c", "-j"}}

func genC15(seed uint64, idx int) c15Data {
	r := kernel.NewRand(kernel.Mix(seed, 15, 1, uint64(idx)))
	var d c15Data
	sc := &d.Scenario
	sc.WriteFail = -1
	sc.Flags = append([]string{}, kernel.Pick(r, outFlagSets)...)
	sc.Indent = kernel.Pick(r, []int{0, 0, 1, 2, 3, 4, 5, 6, 7, 8, 9, 9})
	if r.Bool(0.5) {
		// every combination of the output flags, in any order (precedence: -c over --tab over --indent n;
		// --raw-output0 over -j over -r)
		sc.Flags = sc.Flags[:0]
		for _, f := range []string{"-c", "-r", "-j", "--raw-output0", "--tab", "--indent"} {
			if r.Bool(0.3) {
				sc.Flags = append(sc.Flags, f)
			}
		}
		fl := append([]string{}, sc.Flags...)
		for i, j := range r.Perm(len(fl)) {
			sc.Flags[i] = fl[j]
		}
	}
	if r.Bool(0.3) {
		sc.Flags = append(sc.Flags, "-e")
	}
	if sp := kernel.NewRand(kernel.Mix(seed, 15, 9, uint64(idx))); sp.Bool(0.35) {
		sc.Spell = sp.Uint64() | 1
	}
	inMode := r.Weighted([]int{6, 2, 2})
	if inMode == 1 {
		sc.Flags = append(sc.Flags, "-n")
	} else if inMode == 2 {
		sc.Flags = append(sc.Flags, "-s")
	}
	d.Batch = kernel.Pick(r, []string{"delivery", "delivery", "delivery", "truncation", "truncation", "truncation", "read-error", "read-error", "write-fault", "write-fault", "usage", "compile"})
	ndocs := r.Range(0, 5)
	docs := genDocs(r, ndocs)
	text := joinDocs(r, docs, r.Bool(0.7))
	sc.Query = genC15Query(r, ndocs, d.Batch != "read-error")
	switch d.Batch {
	case "usage":
		// usage errors: status 2, nothing on stdout, whatever the input holds
		switch r.Intn(5) {
		case 0:
			sc.PreArgs = []string{kernel.Pick(r, []string{"--nosuchflag", "--compact", "-Z", "--raw-output1", "--exit"})}
		case 1:
			sc.PreArgs = []string{"--arg", "a"}
			sc.NoQuery = true
			sc.Flags = nil
		case 2:
			sc.Flags = nil
			sc.PreArgs = []string{"--indent", kernel.Pick(r, []string{"x", "1.5", "", "two"})}
			sc.Query = "."
		case 3:
			sc.PreArgs = []string{"--compact-output=1"}
		default:
			sc.PreArgs = []string{"--argjson", "a"}
			sc.NoQuery = true
			sc.Flags = nil
		}
	case "compile":
		// query parse / compile errors: status 3, nothing on stdout
		sc.Query = kernel.Pick(r, []string{".a |", "foo(", "nosuchfunction", "$undefined", ". as [$a] | $b", "{", "1 +", "if . then 1", ".[", "\"unterminated", "def f: 1; g", "1 as $x | $y", "break $nolabel", "import \"nosuchmodule\" as m; .", ". |= ", "reduce . as $x", ".. ..a"})
	case "truncation":
		if r.Bool(0.5) && len(text) > 0 {
			text = text[:r.Intn(len(text)+1)]
		} else {
			text += kernel.Pick(r, []string{`{"a":@}`, `[1,`, `tru`, `}`, `"unterminated`, `{"id":9,`, `nul`, "\x01", `[1 2]`}) + kernel.Pick(r, []string{"", "\n", "\n" + `{"id":99}` + "\n"})
		}
	case "read-error":
		sc.Plan.Fault = "error"
		sc.Plan.FaultAt = r.Intn(len(text) + 1)
		sc.Plan.ErrWithData = r.Bool(0.5)
	case "write-fault":
		sc.WriteFail = r.Intn(200)
		if r.Bool(0.3) {
			sc.WriteFail = r.Intn(20000)
			// large outputs cross the encoder's flush threshold
			sc.Query = `[range(3000)|tostring], ` + sc.Query
		}
	}
	sc.Stdin = text
	// sometimes spread over two or three sources, files with "-" possibly among them; in the
	// truncation batch the malformed or truncated part ends any one of them, not only the last:
	// the inputs of the later sources are still processed
	if r.Bool(0.3) && (d.Batch == "delivery" || d.Batch == "truncation") {
		nseg := r.Range(2, 3)
		texts := make([]string, nseg)
		lo := 0
		for i := 0; i < nseg; i++ {
			hi := len(docs)
			if i < nseg-1 {
				hi = lo + r.Intn(len(docs)-lo+1)
			}
			texts[i] = joinDocs(r, docs[lo:hi], i < nseg-1 || r.Bool(0.5))
			lo = hi
		}
		if d.Batch == "truncation" {
			bad := r.Intn(nseg)
			if r.Bool(0.4) && len(texts[bad]) > 0 {
				texts[bad] = texts[bad][:r.Intn(len(texts[bad])+1)]
			} else {
				texts[bad] += kernel.Pick(r, []string{`{"a":@}`, `[1,`, `tru`, `}`, `"unterminated`, `{"id":9,`, `nul`, "\x01", `[1 2]`}) + kernel.Pick(r, []string{"", "\n", "\n" + `{"id":99}` + "\n"})
			}
		}
		stdinAt := r.Intn(nseg + 1) // nseg: no source is stdin
		sc.Stdin = ""
		sc.Sources = nil
		for i, t := range texts {
			if i == stdinAt {
				sc.Sources = append(sc.Sources, Source{Name: "-"})
				sc.Stdin = t
			} else {
				sc.Sources = append(sc.Sources, Source{Name: fmt.Sprintf("f%d", i), Text: t})
			}
		}
	}
	fault, faultAt, ewd := sc.Plan.Fault, sc.Plan.FaultAt, sc.Plan.ErrWithData
	sc.Plan, sc.PlanClass = simio.GenPlan(r, len(sc.Stdin), []int{r.Intn(len(sc.Stdin) + 1)})
	sc.Plan.Fault, sc.Plan.FaultAt, sc.Plan.ErrWithData = fault, faultAt, ewd
	return d
}

func c15viol(d *c15Data, class, format string, args ...any) *kernel.Violation {
	sc := &d.Scenario
	return &kernel.Violation{Property: "C15", Class: class, Case: kernel.NewCase("C15", d.Batch, d),
		Detail: fmt.Sprintf("batch=%s argv=%q\nstdin=%q\nplan=%s fault=%s@%d write_fail=%d\n", d.Batch, sc.argvForDisplay(), kernel.Short2(sc.Stdin, 400), sc.PlanClass, sc.Plan.Fault, sc.Plan.FaultAt, sc.WriteFail) + fmt.Sprintf(format, args...)}
}

func countDiagnostics(stderr string) int {
	n := 0
	for _, l := range strings.Split(stderr, "\n") {
		if strings.HasPrefix(l, "gojq: ") {
			n++
		}
	}
	return n
}

func validStatus(x int) bool { return x >= 0 && x <= 5 }

func judgeC15(d *c15Data, res Result) *kernel.Violation {
	sc := &d.Scenario
	if res.Panicked != "" {
		return c15viol(d, "panic", "the command panicked: %s", res.Panicked)
	}
	switch d.Batch {
	case "usage", "compile":
		want := 2
		if d.Batch == "compile" {
			want = 3
		}
		if res.Exit != want {
			return c15viol(d, "status", "%s error: exit status %d, the statement prescribes %d; stderr %q", d.Batch, res.Exit, want, kernel.Short2(res.Stderr, 300))
		}
		if res.Stdout != "" {
			return c15viol(d, "stdout", "%s error: stdout must stay empty, got %q", d.Batch, kernel.Short2(res.Stdout, 300))
		}
		if res.Stderr == "" {
			return c15viol(d, "stderr", "%s error: no diagnostic on stderr", d.Batch)
		}
		return nil
	}
	exp, err := sc.Model(Vars{})
	if err != nil {
		return nil // the generator produced a query the model cannot run: not judged (counted by the caller)
	}
	cmpFull := func(exp Expect, what string) *kernel.Violation {
		if res.Stdout != exp.Stdout {
			return c15viol(d, "stdout", "%s: stdout differs from the library outputs rendered per the statement\n got: %q\nwant: %q", what, kernel.Short2(res.Stdout, 600), kernel.Short2(exp.Stdout, 600))
		}
		if res.Exit&0xff != exp.Status {
			return c15viol(d, "status", "%s: exit status %d, the statement prescribes %d (halted=%v diagnostics=%d outputs=%d)", what, res.Exit, exp.Status, exp.Halted, exp.Diagnostics, exp.Outputs)
		}
		rest := res.Stderr
		if exp.HaltMessage != "" {
			if !strings.HasSuffix(rest, exp.HaltMessage) {
				return c15viol(d, "stderr", "%s: stderr does not end with the halt_error message %q: %q", what, exp.HaltMessage, kernel.Short2(res.Stderr, 400))
			}
			rest = strings.TrimSuffix(rest, exp.HaltMessage)
		}
		if n := countDiagnostics(rest); n != exp.Diagnostics && !strings.Contains(sc.Query, "stderr") {
			return c15viol(d, "stderr", "%s: %d diagnostics on stderr, expected %d: %q", what, n, exp.Diagnostics, kernel.Short2(res.Stderr, 600))
		}
		if exp.Diagnostics == 0 && rest != "" && !strings.Contains(sc.Query, "debug") && !strings.Contains(sc.Query, "stderr") {
			return c15viol(d, "stderr", "%s: stderr should be empty apart from the halt message: %q", what, kernel.Short2(res.Stderr, 400))
		}
		return nil
	}
	switch d.Batch {
	case "delivery", "truncation":
		return cmpFull(exp, "fault-free stream")
	case "read-error":
		if !res.FaultFired {
			return cmpFull(exp, "read error placed after the end of the data")
		}
		// documents complete before the fault must be processed, the one adjacent to it may or may not be
		f := min(sc.Plan.FaultAt, len(sc.Stdin))
		prefix := sc.Stdin[:f]
		dec := json.NewDecoder(strings.NewReader(prefix))
		dec.UseNumber()
		lastStart := int64(0)
		for {
			start := dec.InputOffset()
			var v any
			if err := dec.Decode(&v); err != nil {
				if err != io.EOF {
					lastStart = -1 // the prefix itself is malformed before the fault: compare as is
				}
				break
			}
			lastStart = start
		}
		variants := []string{prefix + "\x01"}
		if lastStart >= 0 {
			variants = append(variants, prefix[:lastStart]+"\x01")
		}
		var firstV *kernel.Violation
		for _, vt := range variants {
			alt := *sc
			alt.Stdin = vt
			e2, err := alt.Model(Vars{})
			if err != nil {
				return nil
			}
			v := func() *kernel.Violation {
				if res.Stdout != e2.Stdout {
					return c15viol(d, "stdout", "read error at byte %d: stdout matches neither admissible outcome\n got: %q\nwant: %q", f, kernel.Short2(res.Stdout, 600), kernel.Short2(e2.Stdout, 600))
				}
				if res.Exit&0xff != e2.Status {
					return c15viol(d, "status", "read error at byte %d: exit status %d, expected %d", f, res.Exit, e2.Status)
				}
				return nil
			}()
			if v == nil {
				return nil
			}
			if firstV == nil {
				firstV = v
			}
		}
		return firstV
	case "write-fault":
		if !res.StdoutFailed {
			return cmpFull(exp, "write fault placed after the end of the output")
		}
		if !strings.HasPrefix(exp.Stdout, res.Stdout) {
			return c15viol(d, "stdout", "stdout refused bytes from offset %d; the %d bytes accepted are not a prefix of the fault-free output\n got: %q\nwant: %q", sc.WriteFail, len(res.Stdout), kernel.Short2(res.Stdout, 300), kernel.Short2(exp.Stdout, 300))
		}
		// after the refusal the run legitimately takes another course (a failed write is a runtime
		// error for that input, so `input` and halts further on meet other values): the status is a
		// documented one, or a halt status if the query can halt
		if !validStatus(res.Exit) && res.Exit&0xff != exp.Status && !strings.Contains(sc.Query, "halt") {
			return c15viol(d, "status", "exit status %d is not a documented status", res.Exit)
		}
	}
	return nil
}

func (C15) Exec(c kernel.Case) *kernel.Violation {
	var d c15Data
	if err := c.Decode(&d); err != nil {
		return &kernel.Violation{Property: "C15", Class: "bad-case", Detail: err.Error(), Case: c}
	}
	return judgeC15(&d, d.Scenario.Run())
}

func (C15) RunUnit(env *kernel.Env, unit int) {
	out := env.Out
	for k := 0; k < c15Unit; k++ {
		d := genC15(env.Seed, unit*c15Unit+k)
		out.Mark(kernel.NewCase("C15", d.Batch, d))
		if _, err := d.Scenario.Model(Vars{}); err != nil && d.Batch != "usage" && d.Batch != "compile" {
			out.Inc("generator_query_rejected")
			continue
		}
		res := d.Scenario.Run()
		v := judgeC15(&d, res)
		out.Inc("evaluations")
		out.Inc("batch_" + d.Batch)
		out.Add("stdin_bytes_delivered", int64(res.Delivered))
		out.Add("reads", int64(res.Reads))
		out.Inc("plan_" + d.Scenario.PlanClass)
		if res.FaultFired {
			out.Inc("fault_read_error_fired")
		}
		if res.StdoutFailed {
			out.Inc("fault_stdout_write_refused")
		}
		if d.Batch == "truncation" {
			out.Inc("fault_truncated_or_malformed_tail")
		}
		if strings.Contains(res.Stderr, "gojq: ") {
			out.Inc("runs_with_diagnostics")
		}
		if res.Exit != 0 {
			out.Inc(fmt.Sprintf("exit_%d", res.Exit&0xff))
		}
		out.Distinct("flagsets", fmt.Sprint(d.Scenario.Flags, d.Batch))
		if len(d.Scenario.Stdin) > 0 && (d.Batch != "delivery" || len(d.Scenario.Plan.Chunks) > 1 || d.Scenario.Plan.Rest > 0) {
			out.Distinct("nontrivial", fmt.Sprint(d.Scenario))
		}
		if v != nil {
			out.Violate(v)
		}
		if out.WantSample() && k == 0 {
			out.Sample(map[string]any{"argv": d.Scenario.argvForDisplay(), "stdin": kernel.Short2(d.Scenario.Stdin, 200), "batch": d.Batch, "plan": d.Scenario.PlanClass, "exit": res.Exit, "stdout": kernel.Short2(res.Stdout, 120)})
		}
	}
}

func (C15) Shrink(c kernel.Case) []kernel.Case {
	var d c15Data
	if c.Decode(&d) != nil {
		return nil
	}
	return shrinkScenario(&d.Scenario, false, func(s Scenario) kernel.Case {
		e := d
		e.Scenario = s
		return kernel.NewCase("C15", d.Batch, e)
	})
}

// shrinkScenario proposes simpler scenarios. fixedQuery: the query and the flags are bound to a
// hand-written model (C16 order/stream/args kinds) and must stay as they are.
func shrinkScenario(sc *Scenario, fixedQuery bool, mk func(Scenario) kernel.Case) []kernel.Case {
	var out []kernel.Case
	add := func(s Scenario) { out = append(out, mk(s)) }
	if len(sc.Plan.Chunks) > 0 || sc.Plan.Rest != 0 || sc.Plan.EOFWithData {
		s := *sc
		s.Plan = simio.ReadPlan{Fault: sc.Plan.Fault, FaultAt: sc.Plan.FaultAt, ErrWithData: sc.Plan.ErrWithData}
		add(s)
		s.Plan.Rest = 1
		add(s)
	}
	if sc.Spell != 0 {
		s := *sc
		s.Spell = 0
		add(s)
	}
	for i := range sc.Flags {
		if fixedQuery {
			break
		}
		if sc.Flags[i] == "--stream" || sc.Flags[i] == "-R" || sc.Flags[i] == "--indent" {
			continue
		}
		s := *sc
		s.Flags = append(append([]string{}, sc.Flags[:i]...), sc.Flags[i+1:]...)
		add(s)
	}
	parts := strings.Split(sc.Query, ", ")
	if len(parts) > 1 && !fixedQuery {
		for i := range parts {
			s := *sc
			s.Query = strings.Join(append(append([]string{}, parts[:i]...), parts[i+1:]...), ", ")
			add(s)
		}
	}
	// drop lines of stdin
	lines := strings.SplitAfter(sc.Stdin, "\n")
	if len(lines) > 1 {
		for i := range lines {
			s := *sc
			s.Stdin = strings.Join(append(append([]string{}, lines[:i]...), lines[i+1:]...), "")
			if s.Plan.FaultAt > len(s.Stdin) {
				s.Plan.FaultAt = len(s.Stdin)
			}
			add(s)
		}
	}
	if len(sc.Sources) > 0 {
		s := *sc
		s.Sources = nil
		add(s)
	}
	return out
}

func (C15) Describe(ev *kernel.Evidence) {
	st := ev.Coverage["stats"].(map[string]int64)
	sets := ev.Coverage["distinct_sets"].(map[string]int)
	ev.Coverage["evaluations"] = st["evaluations"]
	ev.Coverage["distinct_nontrivial"] = sets["nontrivial"]
	ev.Coverage["rule"] = "one evaluation = one in-process run of the command on simulated stdin/stdout/stderr against the library-based model of the statement; batches: fault-free delivery schedules, truncation / malformed tail, read error at byte f (narrowly relaxed oracle), stdout write refusal at byte w; " +
		"non-trivial and distinct = distinct scenarios with non-empty stdin and either a fault or a delivery schedule that splits the stream"
	fk := map[string]int64{}
	for k, v := range st {
		if strings.HasPrefix(k, "fault_") || strings.HasPrefix(k, "batch_") || strings.HasPrefix(k, "plan_") || strings.HasPrefix(k, "exit_") {
			fk[k] = v
		}
	}
	ev.Coverage["fault_kinds"] = fk
	ev.Coverage["sampled_configurations"] = map[string]any{"distinct_flag_set_x_batch": sets["flagsets"], "note": "the option product and the query shapes are sampled by the workload generator, not simulated"}
	ev.Coverage["simulated_time"] = map[string]any{"read_calls": st["reads"], "stdin_bytes_delivered": st["stdin_bytes_delivered"]}
	ev.Coverage["components"] = map[string]string{
		"real":      "gojq command (flag parser, input iterators, encoders, status bookkeeping), gojq library, encoding/json, regular files in a scratch directory",
		"simulated": "stdin (delivery schedule, truncation, read error), stdout (write refusal), stderr",
		"model":     "per-input loop over documents split with encoding/json, library run per input, renderer and status rules of the statement (props/cmdsim/model.go)",
	}
	ev.Assumptions = []string{
		"the model uses the gojq library for query evaluation: by the statement, the command must print exactly what the library yields",
		"after an injected read error the one document adjacent to the fault may or may not have been processed; nothing else is relaxed",
		"YAML and colour output belong to C12 and are not generated; --indent values above 9 (a pinned status 5) are not generated",
	}
}
