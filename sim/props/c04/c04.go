// Package c04 decides C04 (compiler optimisations are unobservable) the
// "buggify" way: the simulator flips a coin at every visit of an optimisation
// site during Compile (hook gojq.VerifSkip, build tag verif) and compares the
// run of the resulting code with the run of the same query compiled with every
// coin = skip.
package c04

import (
	"fmt"
	"strings"

	"github.com/itchyny/gojq"

	"verif/sim/kernel"
	"verif/sim/seams/simctx"
	"verif/sim/workload"
)

const ID = "C04"

type Prop struct{}

func (Prop) ID() string    { return ID }
func (Prop) Level() string { return "exploration" }

type Data struct {
	Src      string             `json:"src"`
	Input    kernel.ValueSpec   `json:"input"`
	VarNames []string           `json:"var_names,omitempty"`
	VarVals  []kernel.ValueSpec `json:"var_vals,omitempty"`
	// the coin vector: Policy "none" (production), "site" (every visit of one site kind skipped),
	// "seeded" (each visit skipped with probability P from PolicySeed), "list" (exactly the visits in Skips)
	Policy     string  `json:"policy"`
	Site       int     `json:"site,omitempty"`
	P          float64 `json:"p,omitempty"`
	PolicySeed uint64  `json:"policy_seed,omitempty"`
	Skips      []int   `json:"skips,omitempty"` // visit indices skipped (recorded decision list)
	Budget     int     `json:"budget"`
	Origin     string  `json:"origin,omitempty"`
}

type tiers struct {
	Gen, Vectors, MaxOut, Budget, ExtraInputs int
}

func tier(t string) tiers {
	if t == "thorough" {
		return tiers{Gen: 400000, Vectors: 24, MaxOut: 512, Budget: 20000, ExtraInputs: 3}
	}
	return tiers{Gen: 40000, Vectors: 6, MaxOut: 64, Budget: 5000, ExtraInputs: 2}
}

// ---- coin source -------------------------------------------------------------------

type coins struct {
	forceSkip int // a site always skipped on top of the policy (-1: none)
	d         *Data
	r         *kernel.Rand
	visit     int
	skips     []int // visits skipped
	list      map[int]bool
	fired     [32]int // skipped visits per site
	visits    [32]int
}

func (c *coins) skip(site int) bool {
	v := c.visit
	c.visit++
	if site >= 0 && site < len(c.visits) {
		c.visits[site]++
	}
	var s bool
	if site == c.forceSkip {
		c.skips = append(c.skips, v)
		return true
	}
	switch c.d.Policy {
	case "all":
		s = true
	case "none":
		s = false
	case "site":
		s = site == c.d.Site
	case "seeded":
		s = c.r.Float() < c.d.P
	case "list":
		s = c.list[v]
	}
	if s {
		c.skips = append(c.skips, v)
		if site >= 0 && site < len(c.fired) {
			c.fired[site]++
		}
	}
	return s
}

type compiled struct {
	code     *gojq.Code
	err      string
	panicked string
	ops      string
	coins    *coins
}

func compileWith(d *Data, policy *Data) *compiled { return compileForce(d, policy, -1) }

func compileForce(d *Data, policy *Data, forceSkip int) *compiled {
	c := &coins{d: policy, r: kernel.NewRand(policy.PolicySeed), forceSkip: forceSkip}
	q, err := gojq.Parse(d.Src)
	if err != nil {
		return &compiled{err: "parse: " + err.Error(), coins: c}
	}
	if policy.Policy == "list" {
		c.list = map[int]bool{}
		for _, v := range policy.Skips {
			c.list[v] = true
		}
	}
	res := &compiled{coins: c}
	gojq.VerifSkip = c.skip
	defer func() {
		gojq.VerifSkip = nil
		if r := recover(); r != nil {
			res.panicked = fmt.Sprintf("compile: %v", r)
		}
	}()
	var opts []gojq.CompilerOption
	if len(d.VarNames) > 0 {
		opts = append(opts, gojq.WithVariables(d.VarNames))
	}
	code, cerr := gojq.Compile(q, opts...)
	if cerr != nil {
		res.err = "compile: " + cerr.Error()
		return res
	}
	res.code = code
	res.ops = strings.Join(gojq.VerifOps(code), " ")
	return res
}

type runResult struct {
	outs      []string // typed encodings; the last may be an error
	ended     bool     // the sequence ended (exhaustion or first uncaught error)
	errAt     int      // index of the first error output, -1
	truncated bool     // step cap or output cap
	panicked  string
}

func run(c *compiled, d *Data, maxOut int) (res runResult) {
	res.errAt = -1
	defer func() {
		if r := recover(); r != nil {
			res.panicked = fmt.Sprintf("%v", r)
		}
	}()
	in := kernel.MustBuild(d.Input)
	vars := make([]any, len(d.VarVals))
	for i, s := range d.VarVals {
		vars[i] = kernel.MustBuild(s)
	}
	ctx := simctx.New()
	ctx.Budget = d.Budget
	it := c.code.RunWithContext(ctx, in, vars...)
	for len(res.outs) < maxOut {
		v, ok := it.Next()
		if !ok {
			res.ended = true
			return
		}
		if e, isErr := v.(error); isErr {
			if ctx.Closed {
				res.truncated = true
				return
			}
			res.outs = append(res.outs, kernel.EncErr(e))
			res.errAt = len(res.outs) - 1
			res.ended = true
			// the sequence ends at the first uncaught error (C01); drain a little to check that advancing does not panic
			for k := 0; k < 3; k++ {
				if _, ok := it.Next(); !ok {
					break
				}
			}
			return
		}
		res.outs = append(res.outs, kernel.Enc(v))
	}
	res.truncated = true
	return
}

func viol(d *Data, class, format string, args ...any) *kernel.Violation {
	return &kernel.Violation{Property: ID, Class: class, Case: kernel.NewCase(ID, d.Policy, d),
		Detail: fmt.Sprintf("program: %s\ninput: %s\ncoins: policy=%s site=%s p=%.2f skipped_visits=%v\n", d.Src, d.Input.JSON, d.Policy, siteName(d.Site, d.Policy), d.P, d.Skips) + fmt.Sprintf(format, args...)}
}

func siteAssignSetpath() int {
	for i, n := range gojq.VerifSiteNames {
		if n == "assign-setpath" {
			return i
		}
	}
	return -1
}

func siteName(s int, policy string) string {
	if policy != "site" {
		return "-"
	}
	if s >= 0 && s < len(gojq.VerifSiteNames) {
		return gojq.VerifSiteNames[s]
	}
	return fmt.Sprint(s)
}

type stats struct {
	skip       string
	opsDiffer  bool
	nSkipped   int
	truncated  bool
	fired      [32]int
	visits     [32]int
	refOutputs int
}

// execute compares the code compiled under d's coins with the all-skip reference.
func execute(d *Data, ref *compiled, refRun *runResult, prodOps string, maxOut int) (*kernel.Violation, *stats) {
	st := &stats{}
	if ref == nil {
		all := *d
		all.Policy = "all"
		ref = compileWith(d, &all)
		if ref.panicked != "" {
			return viol(d, "panic", "compiling with every optimisation skipped panicked: %s", ref.panicked), st
		}
		if ref.code != nil {
			r := run(ref, d, maxOut)
			refRun = &r
		}
	}
	test := compileWith(d, d)
	st.fired, st.visits = test.coins.fired, test.coins.visits
	st.nSkipped = len(test.coins.skips)
	rec := *d
	if d.Policy != "none" {
		rec.Policy, rec.Skips = "list", test.coins.skips
	}
	mk := func(v *kernel.Violation) *kernel.Violation {
		v.Case = kernel.NewCase(ID, rec.Policy, rec)
		return v
	}
	if test.panicked != "" {
		return mk(viol(d, "panic", "Compile panicked: %s", test.panicked)), st
	}
	if (ref.code == nil) != (test.code == nil) || ref.err != test.err {
		if ref.err == "" && strings.HasPrefix(test.err, "parse") {
			st.skip = "parse error"
			return nil, st
		}
		return mk(viol(d, "compile-differs", "compile outcome differs: with these coins %q, with every optimisation skipped %q", test.err, ref.err)), st
	}
	if test.code == nil {
		st.skip = "compile error"
		return nil, st
	}
	st.opsDiffer = test.ops != prodOps && prodOps != ""
	if refRun.panicked != "" {
		return mk(viol(d, "panic", "the unoptimised code panicked at run time: %s", refRun.panicked)), st
	}
	got := run(test, d, maxOut)
	if got.panicked != "" {
		return mk(viol(d, "panic", "the code compiled with these coins panicked at run time after %d outputs: %s\n(the unoptimised code yields %d outputs)", len(got.outs), got.panicked, len(refRun.outs))), st
	}
	st.refOutputs = len(refRun.outs)
	st.truncated = got.truncated || refRun.truncated
	n := min(len(got.outs), len(refRun.outs))
	class, detail := "", ""
	for i := 0; i < n && class == ""; i++ {
		if got.outs[i] != refRun.outs[i] {
			class = "output-differs"
			if i == got.errAt && i == refRun.errAt {
				class = "error-differs"
			}
			detail = fmt.Sprintf("output #%d differs\n with these coins:            %s\n every optimisation skipped: %s", i, kernel.Short(got.outs[i]), kernel.Short(refRun.outs[i]))
		}
	}
	if class == "" && !st.truncated && (len(got.outs) != len(refRun.outs) || got.ended != refRun.ended) {
		class = "output-differs"
		detail = fmt.Sprintf("%d outputs with these coins, %d with every optimisation skipped\n with these coins:            %s\n every optimisation skipped: %s", len(got.outs), len(refRun.outs), kernel.Short(fmt.Sprint(got.outs)), kernel.Short(fmt.Sprint(refRun.outs)))
	}
	if class == "" {
		return nil, st
	}
	// Listed finding: folding makes every evaluation of a literal yield one shared value, and gojq
	// decides the validity of a path by the identity of containers; a program that meets the same
	// literal twice can see it. Recognised by its cause alone: the same code (same coins, folding
	// still on) run with every constant delivered as a fresh deep copy (hook VerifFreshConst), as if
	// the literal were built anew, agrees with the reference. A folding that yields wrong values
	// stays a violation.
	{
		gojq.VerifFreshConst = true
		ar := run(test, d, maxOut)
		gojq.VerifFreshConst = false
		same := ar.panicked == "" && len(ar.outs) == len(refRun.outs) && ar.ended == refRun.ended
		for k := 0; same && k < len(ar.outs); k++ {
			same = ar.outs[k] == refRun.outs[k]
		}
		if same {
			return mk(viol(d, "folded-literal-identity", "%s", detail)), st
		}
	}
	// The listed finding, recognised by its cause: with the same coins, the difference vanishes when
	// the constant-path assignment shortcut (still in use) reports a failed update without the
	// `setpath(...) cannot be applied to` wrapper. Any other defect of the shortcut stays visible.
	gojq.VerifBareSetpath = true
	alt := compileWith(d, d)
	gojq.VerifBareSetpath = false
	if alt.code != nil && alt.panicked == "" {
		ar := run(alt, d, maxOut)
		same := ar.panicked == "" && len(ar.outs) == len(refRun.outs) && ar.ended == refRun.ended
		for k := 0; same && k < len(ar.outs); k++ {
			same = ar.outs[k] == refRun.outs[k]
		}
		if same {
			class = "setpath-message-wrapper"
		}
	}
	return mk(viol(d, class, "%s", detail)), st
}

// strValue decodes the typed encoding of a string output ("" if it is not a string).
func strValue(enc string) string {
	if !strings.HasPrefix(enc, `"`) {
		return ""
	}
	var s string
	if _, err := fmt.Sscanf(enc, "%q", &s); err != nil {
		return ""
	}
	return s
}

func errMessage(enc string) string {
	k := strings.Index(enc, "M:")
	if k < 0 {
		return ""
	}
	var s string
	if _, err := fmt.Sscanf(enc[k+2:], "%q", &s); err != nil {
		return ""
	}
	return s
}

func (Prop) Exec(c kernel.Case) *kernel.Violation {
	var d Data
	if err := c.Decode(&d); err != nil {
		return &kernel.Violation{Property: ID, Class: "bad-case", Detail: err.Error(), Case: c}
	}
	none := d
	none.Policy = "none"
	prod := compileWith(&d, &none)
	v, _ := execute(&d, nil, nil, prod.ops, 512)
	return v
}

// ---- workload ---------------------------------------------------------------------------

// directed programs biased to the rewrite preconditions and their near misses.
// function definitions carried by the operand a rewrite looks at: the rewrite must not drop them
// (a definition that does not compile must still be rejected) nor lose their scope
var defCarriers = func() []struct{ Src, In string } {
	var out []struct{ Src, In string }
	defs := []string{"def zz: nofunc;", "def zz: $nope;", "def zz: 1;", "def zz: .a;", "def zz(f): f;", "def zz: zz;", "def zz: def yy: nofunc2; 1;", "def zz: break $nolabel;"}
	shapes := []string{
		"(D .a) = 1", "(D .a.b) = 1", "(D .[0]) = 1", "(D .a) |= 1", "(D .a) += 1", "((D .a)) = 1", "(D (D .a)) = 1", ".a = (D 1)", "(D .a[1:]) = [1]", "del(D .a)", "path(D .a)",
		".[D 1]", ".[D \"a\"]", ".[D 1:]", ".[:D 1]", ".[D 1:D 2]", ".a[D 0]?", "path(.[D \"a\"])", ".[D \"a\"] = 1", "[D 1]", "{a: D 1}?", "(D 1)", "[D 1, 2]",
		"[(D 1), 2]", "[1, (D 2)]", "[(D 1)]", "{a: (D 1)}", "{(D \"a\"): 1}", "{a: 1, b: (D 2)}", ".[(D \"a\")]", ".[(D 0)]", ".[(D 1):]", ".[:(D 1)]", "-(D 1)", "+(D 1)", "(D 1) as $x | $x", "(D .) as [$x] | $x",
		"if (D true) then 1 else 2 end", "if . then (D 1) else (D 2) end", "if (D empty) then 1 else 2 end", "def w(f): f; w(D .)", "def w(f): f; w(D 1)", "def w(f): f; w(D .a)", "def w: (D .) | w?; 1", "try (D 1) catch .", "(D 1), (D 2)", "(D 1) // 2", "label $l | (D 1)", "reduce (D .) as $x (0; 1)", "first(D 1)", "(D .a)?", "(D .)[0]?", "(D \"a\")[0:1]", "@json \"\\(D 1)\"", "\"\\(D 1)\"", "(D .) | zz?",
	}
	for _, sh := range shapes {
		for _, d := range defs {
			out = append(out, struct{ Src, In string }{strings.ReplaceAll(sh, "D", d), `{"a":{"b":[1,2]},"b":2}`})
		}
	}
	return out
}()

func init() { directed = append(directed, defCarriers...) }

// the same literal met twice: folding makes one shared value of a literal that otherwise is built
// anew at every evaluation; nothing may observe the difference (path validity is decided by the
// identity of containers)
var sameLiteralTwice = func() []struct{ Src, In string } {
	var out []struct{ Src, In string }
	lits := []string{"[1,2]", "{a: 1}", "[[1],{b: 2}]", "{a: [1,2]}", "[]", "{}", "[1,(2|.)]", "[.]", "{a: .}", "[-1]", "{a: -1}", "\"s\"", "[\"a\\(1)\"]"}
	shapes := []string{
		"def lf: L; lf | path(lf | .[0]?)", "def lf: L; lf | path(lf | .a?)", "def lf: L; lf | path(lf)", "def lf: L; lf | [paths(lf)]?", "def lf: L; lf | (lf | .[0]?) = 9", "def lf: L; lf | (lf | .a?) |= 9", "def lf: L; lf | del(lf | .[0]?)", "def lf: L; lf | path(lf | ..)",
		"def lf: L; [lf, lf] | .[0] | path(lf | .[0]?)", "def lf: L; {k: lf} | .k | path(lf | .a?)", "def lf: L; lf as $v | lf | path($v | .[0]?)", "def lf: L; lf | path(first(lf, .) | .[0]?)", "def lf: L; lf | path((lf, .) | .a?)", "def lf: L; lf | path(if true then lf else . end | .[0]?)",
		"[range(2) | L] | .[0] as $a | .[1] | path($a | .[0]?)", "[range(2) | L] | .[0] | path(L | .[0]?)", "[limit(2; repeat(L))] | .[1] | path(L | .a?)", "reduce range(2) as $i (null; if . == null then L else path(L | .[0]?) end)", "foreach range(2) as $i (null; L; path(L | .[0]?))?",
		"def lf: L; lf | getpath(path(lf | .[0]?))?", "def lf: L; lf | [paths] | length", "def lf: L; lf | to_entries?", "def lf: L; lf | (lf | .[0]?) += 1", "def lf: L; lf | pick(lf | .[0]?)?", "def lf: L; def lg: lf; lg | path(lf | .[0]?)", "def lf: L; lf | path(lf | .[0]? | lf | .[0]?)",
		"L | path(L | .[0]?)", "L | path(L)", "L as $v | $v | path($v | .[0]?)", "L as $v | $v | path(L | .[0]?)",
	}
	for _, sh := range shapes {
		for _, l := range lits {
			out = append(out, struct{ Src, In string }{"try (" + strings.ReplaceAll(sh, "L", l) + ") catch \"E\"", `{"a":[1,2],"b":2}`})
		}
	}
	return out
}()

func init() { directed = append(directed, sameLiteralTwice...) }

// computed index keys and slice bounds: the key of an index is evaluated outside path tracking
// (expbegin/expend) unless the compiler proves that needless; keys that are calls of functions
// whose bodies navigate, defined by the user or builtins already compiled by an earlier use, in
// every path context
var computedKeys = func() []struct{ Src, In string } {
	var out []struct{ Src, In string }
	defs := []string{
		"def k: .key;", "def k: .[0];", "def k: first;", "def k: \"a\";", "def k: 0;", "def k: .key | tostring;", "def k: keys[0];", "def k: .k2 | .k3;", "def k: if .key then .key else \"a\" end;", "def k: .key?;", "def k: (.key, \"a\");", "def k: .key as $x | $x;",
		"def k: getpath([\"key\"]);", "def k: try .key catch \"a\";", "def k: .key // \"a\";", "def k: first(.key);", "def k: def kk: .key; kk;", "def kf(f): f; def k: kf(.key);", "def k: [.key][0];", "def k: {a: .key}.a;", "def k: label $l | .key, break $l;", "def k: reduce .key as $x (null; $x);", "def k: length - 1;", "def k: last;",
	}
	uses := []string{".[k]", ".[k]?", ".[k:]?", ".[:k]?", ".[k:k]?", "getpath([k])", ".a[k]?", ".[k][k]?", ".[k | tostring]?", "(.[k], .[k])?", ".[k]? | .[k]?", "(.[k]?)[0]?", "..[k]?"}
	ctxs := []string{"U", "path(U)", "[paths(U)]", "(U) |= .", "(U) = 1", "del(U)", "pick(U)", "path(U | U)", "first, path(U)", "(first?, last?, (keys?[0])) as $w | path(U)", "path(first(U))", "[path(U)] | length", "to_entries? | length, (U)", "(U) += 1", "path(if true then U else . end)", "path(. as $d | U)", "def w(f): path(f); w(U)", "path(U) as $p | getpath($p)"}
	ins := []string{`{"key":"a","a":{"key":"b","b":1,"a":2},"k2":{"k3":"a"}}`, `[1,"x",2,[0,1]]`, `["a",{"a":1}]`, `{"key":0}`, `[[0,[1]],1]`, `null`}
	n := 0
	for _, d := range defs {
		for _, u := range uses {
			for _, c := range ctxs {
				n++
				if n%3 != 0 { // a third of the product, spread evenly
					continue
				}
				out = append(out, struct{ Src, In string }{d + " try (" + strings.ReplaceAll(c, "U", u) + ") catch \"E\"", ins[n%len(ins)]})
			}
		}
	}
	for _, b := range []string{"first", "last", "keys[0]", "length - 1", "min", "max", "add", "(to_entries[0].key)", "first(.[])", "(.[0] | tostring)", "input_line_number", "(\"a\" | ascii_downcase)", "(keys | first)", "(paths | first | first)", "nth(0)", "(.[0]? // 0)"} {
		for _, c := range []string{"path(.[B])", "(B) as $w | path(.[B])", "B, path(.[B])", "[path(.[B]?), path(.[B]?)]", ".[B] |= .", "(B | tostring), (.[B] = 1)", "del(.[B])", "path(.[B:])", "B, path(.[B:])", "B, path(.[:B])", "B, [paths(.[B])]", "path(getpath([B]))", "B, path(getpath([B]))"} {
			for k, in := range []string{`[1,"x",2,[0,1]]`, `{"a":"b","b":"a","0":1}`, `[0,1,2]`} {
				if (len(b)+len(c)+k)%2 == 0 {
					out = append(out, struct{ Src, In string }{"try (" + strings.ReplaceAll(c, "B", b) + ") catch \"E\"", in})
				}
			}
		}
	}
	return out
}()

func init() { directed = append(directed, computedKeys...) }

// every position whose evaluation the compiler brackets with expbegin/expend (conditions, bind and
// reduce sources, value arguments, keys, bounds), filled with a call of a function whose body
// navigates, inside every path context: whatever the compiler proves about the bracket being
// needless must hold for calls of jq-defined functions too
var guardedPositions = func() []struct{ Src, In string } {
	var out []struct{ Src, In string }
	defs := []string{
		"def k: .key;", "def k: .flag;", "def k: .[0];", "def k: .key == \"a\";", "def k: .x | length > 0;", "def k: .key?;", "def k: (.key, .flag);", "def k: first(.key);", "def k: def kk: .flag; kk;", "def kf(f): f; def k: kf(.key);", "def k: .key // .flag;",
		"def k: getpath([\"key\"]);", "def k: .key as $v | $v;", "def k: any;", "def k: has(\"x\");", "def k: .x.y;", "def k: .key | not;", "def k: try .flag catch false;", "def k: [.key] | first;", "def k: .. | booleans;",
	}
	poss := []string{
		"if k then .x else .y end", "if .nokey then .x elif k then .y else .z end", "if k then .x end", "if k then .x elif k then .y end", "if (k | not) then .x else .y end", "if k and k then .x else .y end", "if k or .flag then .x else .y end",
		"k as $v | .x", "k as [$v] | .x", "k as {a: $v} | .x", "k as $v | if $v then .x else .y end", "reduce k as $v (.; .x)", "foreach k as $v (.; .x)", "foreach k as $v (.; .x; .y)", "def g($p): .x; g(k)", "def g($p): if $p then .x else .y end; g(k)", "def g(p): .x; g(k)",
		"limit(k | if . then 1 else 2 end; .x, .y)", ".[k | tostring]", "select(k)", ".x | select(k)", "first(select(k) | .x)", "\"\\(k)\" as $v | .x", "[k] as $v | .x", "{a: k} as $v | .x", "(k, k) as $v | .x", "k // .x", ".[if k then \"x\" else \"y\" end]", "(.x, .y) | select(k)",
		"label $l | if k then .x else break $l end", "try (if k then .x else error end) catch .y", "if k then .x else .y end | if k then .x else .y end", ".x | if k then .y else .z end", "if k then (.x | if k then .y else . end) else .y end",
	}
	ctxs := []string{"U", "path(U)", "[paths(U)]", "(U) = 1", "(U) |= .", "del(U)", "pick(U)", "path(U) as $p | getpath($p)", "(U) += 1", "def w(f): path(f); w(U)", "path(first(U))", "[path(U)] | length"}
	ins := []string{`{"key":"a","flag":true,"x":{"y":1,"key":"b","flag":false,"x":{"y":2}},"y":{"x":1},"z":0}`, `{"key":null,"flag":false,"x":{"y":[1]},"y":2}`, `[{"y":1},{"x":2}]`, `null`}
	n := 0
	for _, d := range defs {
		for _, ps := range poss {
			for _, c := range ctxs {
				n++
				if n%4 != 0 {
					continue
				}
				out = append(out, struct{ Src, In string }{d + " try (" + strings.ReplaceAll(c, "U", ps) + ") catch \"E\"", ins[n%len(ins)]})
			}
		}
	}
	// builtins defined in jq are compiled at their first use: the second use is a plain call
	for _, b := range []string{"any", "all", "first", "last", "not", "(.[0] | not)", "isvalid(.x)", "(to_entries | length > 0)", "(keys | length > 1)", "has(\"x\")", "(.x | values)", "add", "min", "(paths | length > 0)", "isempty(.x)", "(.x | booleans)", "in({})?", "inside([])?", "(.x | objects)", "ascii_downcase?"} {
		for _, c := range []string{"B, path(if B then .x else .y end)", "B as $w | path(if B then .x else .y end)", "path(if B then .x else .y end)", "B, ((if B then .x else .y end) = 1)", "B, path(B as $v | .x)", "B, path(select(B))", "B, path(reduce B as $v (.; .x))", "B, del(if B then .x else .y end)", "[B, B] | length, path(if B then . else . end)", "B, [paths(if B then .x else .y end)]"} {
			for k, in := range []string{`{"x":{"y":1},"y":2}`, `[true,{"x":1}]`, `{"x":null}`} {
				if (len(b)+len(c)+k)%2 == 0 {
					out = append(out, struct{ Src, In string }{"try (" + strings.ReplaceAll(c, "B", b) + ") catch \"E\"", in})
				}
			}
		}
	}
	return out
}()

func init() { directed = append(directed, guardedPositions...) }

var directed = []struct{ Src, In string }{
	{`.[1:2], .[1.5:2.5], .[-1:], .[null:1], .[1:null], .[:-1], .[10:], .[-10:2], .[1:1], .[2:1]`, `[1,2,3,4]`},
	{`.[1:2], .[1.5:2.5], .[-1:], .[null:1], .[:-1], .[10:]`, `"abcdef"`},
	{`.[1:2], .[:1], .[1:]`, `null`},
	{`try (.[1:2]) catch ., try (.["a":]) catch ., try (.[:{}]) catch .`, `{"a":1}`},
	{`path(.[1:2]), path(.[-1:]), path(.[1.5:]), path(.[:null])`, `[1,2,3]`},
	{`.[1:2] = ["x"], (.[1:] |= map(. + 1)), del(.[:1]), (.[1.5:2.5] = [0])`, `[1,2,3]`},
	{`path(.[.a]), path(.[.a:]), path(.[:.a]), path(getpath(["b"])), path(.b[.a])`, `{"a":1,"b":[1,2,3]}`},
	{`. as $x | path(.b[$x.a]), path(.b[first(.a, 0)]), path(.b[.a, 0])`, `{"a":1,"b":[1,2,3]}`},
	{`[paths], [path(..)], [path(.b[]?)], [path(.b[1:][])]`, `{"a":1,"b":[1,2,3]}`},
	{`.b[.a] = 9, (.b[.a] |= . + 1), del(.b[.a]), (.b[.a:] = []), (.[.k] = 1)?`, `{"a":1,"b":[1,2,3],"k":"z"}`},
	{`(.a as $x | .b[$x]), (.a as [$x] ?// $x | .b[$x]), (. as {a: $i} | .b[$i:])`, `{"a":1,"b":[1,2,3]}`},
	{`if . then 1 else (2 | tostring) end`, `false`},
	{`if . then 1 else 2 + 1 end, if . then (1 | tostring) else 2 end, if . then 1 else (2, 3) end`, `false`},
	{`if . then "a" else ("b" | length) end, if . then null else [1] | .[0] end`, `null`},
	{`if . then 1 elif . == null then (2 | tostring) else 3 end`, `null`},
	{`(. and (1 | not)), (. or (null | not))`, `false`},
	{`[((1, .) | 2)]`, `"x"`},
	{`[(1, .) | 2], [(., 1) | 2], [1, (.) | 2], [(1, 2) | 3], [(1, empty) | 2]`, `"x"`},
	{`{a: ((1, .) | 2)}, {a: 1, b: ((2, .) | 3)}`, `"x"`},
	{`.["abc"[1:]]`, `{"abc":1,"bc":2}`},
	{`.["abc"[1:]] = 5, (.["abc"[1:]] |= 7), del(.["abc"[1:]])`, `{"abc":1,"bc":2}`},
	{`try (-1[0]) catch "err", [.[1[0]?]], [-(1[0]?)], [.[-1[0]?]]`, `[1,2,3]`},
	{`.[1 | . + 1], .[(1)], .[1 as $x | $x], .["a" + "b"]?, .[1[0]?:], .[:"a"[0:1]]?`, `[1,2,3]`},
	{`.["a"."b"?], .["a"[0]?], .[[1][0]], .[{"a":1}.a], .[-[1][0]], .[-{"a":1}.a]`, `[1,2,3]`},
	{`-"a"[0:1]?, -[1][0], -{"a":2}.a, +[1][0], -1.5[0]?, -(1)[0]?`, `null`},
	{`1 + (label $l | .)`, `1`},
	{`[.[] | (label $l | .)]`, `[1,2]`},
	{`def f(x): x; f(label $l | .)`, `1`},
	{`1 + (label $l | 2, break $l, 3)`, `null`},
	{`.a = 1`, `5`},
	{`.a = 1`, `{"a":0}`},
	{`try (.a = 1) catch .`, `5`},
	{`.a.b = 1, .[0] = 1, .a[1:2] = [9]`, `null`},
	{`.a[1:2] = 1`, `{"a":[1,2,3]}`},
	{`try (.a[1:2] = 1) catch .`, `{"a":[1,2,3]}`},
	{`.[1.5] = 1, .[-1] = 1`, `[1,2,3]`},
	{`try (.[-5] = 1) catch .`, `[1,2,3]`},
	{`.["a","b"] = 1`, `{}`},
	{`(.a, .b) = (1, 2)`, `{}`},
	{`.a = (.b, .c)`, `{"b":1,"c":2}`},
	{`.a = empty`, `{}`},
	{`.a = error("x")`, `{}`},
	{`try (.a = error("x")) catch .`, `{}`},
	{`path(.a = 1)?`, `{}`},
	{`.a |= 1, .a += 1, .a //= 1`, `{"a":null}`},
	{`{a: 1, a: 2}`, `null`},
	{`{a: 1, "a": 2, ("a"): 3}`, `null`},
	{`{"a": 1, "b": [1, {"c": 2}]}`, `null`},
	{`{a: 1, b: .}`, `5`},
	{`{a: (1, 2)}`, `null`},
	{`{(1|tostring): 1}`, `null`},
	{`{a: 1} | .a = 2 | ., {a: 1}`, `null`},
	{`[1, 2, 3]`, `null`},
	{`[1, (2, 3)]`, `null`},
	{`[1, .]`, `5`},
	{`[1 | 2]`, `null`},
	{`[-1, +1, -(1), - 1, -1.5, -100000000000000000000]`, `null`},
	{`[[1], [[2]], {"a": [3]}]`, `null`},
	{`[1, 2] | .[0] = 9 | ., [1, 2]`, `null`},
	{`-1, -(-1), -(.), +(.), - .a?, -"a"?`, `3`},
	{`try -"a" catch .`, `null`},
	{`.[-1], .[-(1)], .[1:-1], .[-2:]`, `[1,2,3,4]`},
	{`."a", .["a"], ."a"?, .a.b, .a."b", .["a"]["b"]`, `{"a":{"b":1}}`},
	{`.[0], .[1:], .[:1], .[null:1], .[1:null]`, `[1,2,3]`},
	{`try .a catch ., try .[0] catch ., try .["a"] catch ., try .[1:] catch .`, `5`},
	{`try (.a.b) catch .`, `{"a":5}`},
	{`path(.a, .[0]?, .a.b?, .["a"], .a[1:]?)`, `{"a":[1,2]}`},
	{`path(.[0], .[1:], .[-1])`, `[1,2]`},
	{`[paths] | length, (.a |= .), (.a[0] |= . + 1)`, `{"a":[1,2]}`},
	{`if . then 1 else 2 end, if . then "a" else null end`, `true`},
	{`if true then 1 else 2 end, if false then 1 else 2 end, if null then 1 end`, `5`},
	{`if empty then 1 else 2 end`, `null`},
	{`if . then . else 2 end, if . then 1 else . end`, `false`},
	{`if (true, false) then 1 else 2 end`, `null`},
	{`if . then 1 elif . == null then 2 else 3 end`, `null`},
	{`if error then 1 else 2 end`, `"e"`},
	{`try (if error then 1 else 2 end) catch .`, `"e"`},
	{`[.[] | if . > 1 then true else false end]`, `[1,2,3]`},
	{`. and true, . or false, (. and .), (false or false), (null and error)`, `true`},
	{`def f: if . < 5 then .+1 | f else . end; f`, `0`},
	{`def f: if . < 5 then (.+1 | f), . else . end; [f]`, `0`},
	{`def f: if . < 5 then ., (.+1 | f) else . end; [f]`, `0`},
	{`def f: if . < 5 then (.+1 | f) + 1 else 0 end; f`, `0`},
	{`def f($n): if $n < 5 then f($n + 1) else $n end; f(0)`, `null`},
	{`def f(g): if . < 5 then (.+1 | f(g)) else g end; f(. * 2)`, `0`},
	{`def f: def g: if . < 3 then .+1 | f else . end; g; f`, `0`},
	{`def f: if . < 3 then .+1 | f | . else . end; f`, `0`},
	{`def f: (select(. < 3) | .+1 | f) // .; f`, `0`},
	{`def f: try (if . < 3 then .+1 | f else error("done") end) catch .; f`, `0`},
	{`def f: label $l | if . < 3 then .+1 | f else ., break $l end; [f]`, `0`},
	{`def f: . as $x | if $x < 3 then $x + 1 | f else $x end; f`, `0`},
	{`def f: reduce (1, 2) as $x (.; . + $x) | if . < 10 then f else . end; f`, `0`},
	{`def f: if . < 3 then .+1 | f else . end; def g: f | f; g`, `0`},
	{`def f: if . < 3 then .+1 | f elif . < 0 then f else ., . end; [f]`, `0`},
	{`[limit(5; def f: ., (.+1 | f); f)]`, `0`},
	{`[limit(5; repeat(. * 2))], [limit(3; recurse(.+1))], last(range(5)), [range(2; 10; 3)]`, `1`},
	{`def f(x): x + 1; f(.), f(.a?), f(1), f("s"|length), f(empty), f(..), f(@json), f(-1), f([]), f({}), f(error)?`, `1`},
	{`def f(x; y): [x, y]; f(.; .), f(1; 2), f(.a?; .b?), f(empty; 1), f(1; empty), f((1,2); (3,4))`, `{"a":1}`},
	{`def f($a; $b): [$a, $b]; f(.; 1), f(1; .), f((1,2); (3,4))`, `0`},
	{`map(.), map(1), map(.a?), map(empty), map(..)`, `[1,[2]]`},
	{`select(.), select(true), select(empty), select(.a?), (.. | select(type == "number"))`, `[1,{"a":2}]`},
	{`first(.), first(empty), first(1, 2), first(.[]), first(..), isempty(.), isempty(empty)`, `[1,2]`},
	{`limit(1; .), limit(0; .), limit(2; .[]), [limit(3; ..)], until(. > 100; . * 2)?`, `[1,2,3]`},
	{`sort_by(.), sort_by(.a), sort_by(1), group_by(.a) | length`, `[{"a":2},{"a":1}]`},
	{`with_entries(.), with_entries(.value |= 1), to_entries, map_values(.), map_values(empty), map_values(1)`, `{"a":1,"b":2}`},
	{`path(.), path(..), path(.a), path(first(.a, .b)), [paths]`, `{"a":{"b":1}}`},
	{`getpath(["a"]), getpath(["a", "b"]), getpath([]), try getpath(["a", "b", "c"]) catch .`, `{"a":{"b":1}}`},
	{`. as [$a, $b] | [$b, $a], (. as {a: $x} ?// [$x] | $x)`, `[1,2]`},
	{`. as $x | [$x, $x] | .[0] = 1`, `0`},
	{`reduce .[] as $x (0; . + $x), reduce empty as $x (0; 1), reduce .[] as [$a] (0; . + $a)?`, `[1,2]`},
	{`foreach .[] as $x (0; . + $x; [$x, .]), foreach .[] as $x (0; . + $x)`, `[1,2]`},
	{`"a\(.)b", "\(1)\(2)", @json "x\(.)", "\(empty)"`, `[1]`},
	{`try error catch ., (error("x"))?, (.a?) // 1, .[]?`, `5`},
	{`1, 2 | ., 3`, `null`},
	{`(1, 2) + (10, 20), [.[] + 1], 1 - 2 * 3 / 4 % 5`, `[1,2]`},
	{`. < 1, . == 1, (. != 1) and true`, `1`},
	{`..`, `[[1,[2]],{"a":3}]`},
	{`.. |= (if type == "number" then . + 1 else . end)`, `[[1,[2]],{"a":3}]`},
	{`to_entries | from_entries, (keys | map(. + "x")), add, (.. | numbers)`, `{"a":1,"b":2}`},
	{`label $out | foreach .[] as $x (0; . + $x; if . > 3 then ., break $out else . end)`, `[1,2,3,4]`},
	{`[.[] | label $l | if . > 1 then break $l else . end]`, `[1,2,3]`},
	{`def f: label $l | (1, break $l, 2); [f, f]`, `null`},
	{`def f(x): label $l | x, break $l; [f(1, 2)]`, `null`},
	{`first(label $l | 1, break $l), [label $a | label $b | 1, break $a, 2]`, `null`},
	{`input_line_number, $__loc__, ({} | .a.b.c), ([] | .[1:][0])`, `null`},
	{`env | type, ($ENV | type), (builtins | length > 0)`, `null`},
	{`@base64, @base64d, @uri, @csv?, @json, @text, @sh?, @html, @tsv?`, `"aGk="`},
	{`ascii_downcase, ltrimstr("a"), test("b"), [match("."; "g").string], sub("a"; "b"), split("b")`, `"abc"`},
	{`tojson, fromjson?, tostring, tonumber?, length, utf8bytelength?, type, not`, `"12"`},
	{`.a += 1 | .b -= 1 | .c *= 2 | .d /= 2 | .e %= 2 | .f //= 3`, `{"a":1,"b":1,"c":1,"d":1,"e":1,"f":null}`},
	{`.[] += 1, (.[0], .[1]) |= . * 2, del(.[0]), del(.[0, 1]), to_entries`, `[1,2,3]`},
	{`del(.a), del(.a, .b), del(.a.b), delpaths([["a", "b"]]), del(..)?, del(.[]?)`, `{"a":{"b":1},"b":2}`},
	{`.a[1:] = [9], .a[:1] |= map(. + 1), .a[1:2] += [5]`, `{"a":[1,2,3]}`},
	{`def f: .a = 1; def g: {a: 1}; def h: [1, 2]; f, g, h, (g | .a), (h | .[0])`, `{}`},
	{`def f: -1; def g: .[0]; def h: if . then 1 else 2 end; f, g, h`, `[null]`},
	{`[.[] | {a: 1}] | .[0].a = 2 | .`, `[1,2]`},
	{`[range(3) | [1, 2]] | .[0][0] = 9`, `null`},
	{`[range(3) | {"k": [1]}] | .[1].k += [2]`, `null`},
	{`def c: {"x": [1, 2]}; (c | .x[0] = 9), c, (c | .x += [3]), c`, `null`},
	{`def c: [1, [2, 3]]; (c | .[1][0] = 9), c, (c | .[1] |= reverse), c`, `null`},
}

var contexts = []string{
	`{a: (%P%), b: 1}`,
	`{a: 1, b: (%P%), c: 2}`,
	`{(try (%P% | tostring) catch "k"): 1, z: 2}`,
	`[0, (%P%), 9]`,
	`[(%P%)] + [7]`,
	`[1 + (%P%)]?, "after"`,
	`[(%P%) as $v | [$v, 1]]`,
	`def w(x): [x, 1]; w(%P%)`,
	`def w($x): [$x, 1]; w(%P%)`,
	`[limit(3; %P%)] | length`,
	`reduce (%P%) as $v ([]; . + [$v])`,
	`[foreach (%P%) as $v (0; . + 1; [$v, .])]`,
	`[.[]? | (%P%)]`,
	`try ([%P%] | tojson) catch "err"`,
	`[(%P%), (%P%)]`,
	`"s\(%P%)e"`,
	`[if (%P%) then 1 else 2 end]`,
	`[(%P%) // "alt"]`,
	`[first(%P%)], [isempty(%P%)]`,
	`[path(%P%)?]`,
}

type item struct {
	src      string
	in       kernel.ValueSpec
	varNames []string
	varVals  []kernel.ValueSpec
	origin   string
}

var extraInputs = []string{`null`, `{"a":1,"b":[1,2],"c":{"d":null}}`, `[3,1,[2,{"a":1}],"x",null]`, `5`, `"abc"`}

var (
	itemsCache    []item
	itemsCacheKey string
)

// allItems is memoised: the item list is a pure function of (tier, seed).
func allItems(tr tiers, seed uint64) []item {
	key := fmt.Sprint(tr, seed)
	if itemsCacheKey != key || itemsCache == nil {
		itemsCache, itemsCacheKey = buildItems(tr, seed), key
	}
	return itemsCache
}

func buildItems(tr tiers, seed uint64) []item {
	var items []item
	for _, d := range directed {
		items = append(items, item{src: d.Src, in: kernel.ValueSpec{JSON: d.In}, origin: "directed"})
	}
	for _, f := range workload.Finite {
		items = append(items, item{src: f.Src, in: kernel.ValueSpec{JSON: f.In}, origin: "finite"})
	}
	for _, l := range workload.Loops {
		items = append(items, item{src: strings.ReplaceAll(l.Src, "%TICK%", "."), in: kernel.ValueSpec{JSON: l.In}, origin: "loop"})
	}
	corpus, _ := workload.Corpus()
	for _, p := range corpus {
		if !workload.Deterministic(p.Src) {
			continue
		}
		for j, in := range p.Inputs {
			if j >= 2 {
				break
			}
			items = append(items, item{src: p.Src, in: in, varNames: p.VarNames, varVals: p.VarVals, origin: p.Origin})
		}
	}
	// token-level mutants of the corpus programs
	mr := kernel.NewRand(kernel.Mix(seed, 4, 4))
	for k := 0; k < tr.Gen/4; k++ {
		p := corpus[mr.Intn(len(corpus))]
		if !workload.Deterministic(p.Src) || len(p.Inputs) == 0 {
			continue
		}
		m := workload.MutateProgram(mr, p.Src)
		if workload.Deterministic(m) {
			items = append(items, item{src: m, in: p.Inputs[0], varNames: p.VarNames, varVals: p.VarVals, origin: "corpus-mutant"})
		}
	}
	g := workload.NewGen(kernel.Mix(seed, 4, 1))
	g.Bias = "opt"
	for i := 0; i < tr.Gen; i++ {
		src, in := g.Program()
		items = append(items, item{src: src, in: in, origin: "generated"})
	}
	// stack-sensitive contexts: a rewrite that leaves a stray value on the stack, or drops one, only
	// shows where a neighbour pops a fixed number of values (object construction, operators, arguments)
	r := kernel.NewRand(kernel.Mix(seed, 4, 3))
	n := len(items)
	for i := 0; i < n; i++ {
		it := items[i]
		if it.origin == "directed" {
			// every directed program in every context: no listed shape depends on a draw
			for _, w := range contexts {
				jt := it
				jt.src = strings.ReplaceAll(w, "%P%", it.src)
				jt.origin = "directed+context"
				items = append(items, jt)
			}
			continue
		}
		if it.origin == "generated" && !r.Bool(0.35) || len(it.varNames) > 0 {
			continue
		}
		w := kernel.Pick(r, contexts)
		it.src = strings.ReplaceAll(w, "%P%", it.src)
		it.origin += "+context"
		items = append(items, it)
	}
	return items
}

const unitSize = 12

func (Prop) Units(t string, seed uint64) int {
	return (len(allItems(tier(t), seed)) + unitSize - 1) / unitSize
}

func (Prop) RunUnit(env *kernel.Env, unit int) {
	tr := tier(env.Tier)
	items := allItems(tr, env.Seed)
	out := env.Out
	nsites := len(gojq.VerifSiteNames)
	for idx := unit * unitSize; idx < (unit+1)*unitSize && idx < len(items); idx++ {
		it := items[idx]
		r := kernel.NewRand(kernel.Mix(env.Seed, 4, 2, uint64(idx)))
		inputs := []kernel.ValueSpec{it.in}
		for k := 0; k < tr.ExtraInputs; k++ {
			inputs = append(inputs, kernel.ValueSpec{JSON: kernel.Pick(r, extraInputs)})
		}
		out.Inc("programs")
		for _, in := range inputs {
			base := Data{Src: it.src, Input: in, VarNames: it.varNames, VarVals: it.varVals, Budget: tr.Budget, Origin: it.origin}
			out.Mark(kernel.NewCase(ID, "none", base))
			all := base
			all.Policy = "all"
			ref := compileWith(&base, &all)
			if ref.panicked != "" {
				out.Violate(viol(&all, "panic", "compiling with every optimisation skipped panicked: %s", ref.panicked))
				continue
			}
			var refRun *runResult
			if ref.code != nil {
				rr := run(ref, &base, tr.MaxOut)
				refRun = &rr
				// determinism guard
				r2 := run(ref, &base, tr.MaxOut)
				if fmt.Sprint(rr.outs) != fmt.Sprint(r2.outs) {
					out.Inc("skipped_nondeterministic_reference")
					continue
				}
			}
			none := base
			none.Policy = "none"
			prod := compileWith(&base, &none)
			var vectors []Data
			vectors = append(vectors, none)
			for s := 0; s < nsites; s++ {
				if prod.coins.visits[s] == 0 {
					continue // the site is never visited for this program
				}
				d := base
				d.Policy, d.Site = "site", s
				vectors = append(vectors, d)
			}
			for k := 0; k < tr.Vectors; k++ {
				d := base
				d.Policy, d.P, d.PolicySeed = "seeded", kernel.Pick(r, []float64{0.1, 0.5, 0.9}), r.Uint64()
				vectors = append(vectors, d)
			}
			for i := range vectors {
				d := &vectors[i]
				v, st := execute(d, ref, refRun, prod.ops, tr.MaxOut)
				out.Inc("evaluations")
				if st.skip != "" {
					out.Inc("skipped_" + strings.ReplaceAll(st.skip, " ", "_"))
					break
				}
				if st.truncated {
					out.Inc("truncated_compared_on_common_prefix")
				}
				for s := 0; s < nsites; s++ {
					if st.fired[s] > 0 {
						out.Add("site_skipped_"+gojq.VerifSiteNames[s], int64(st.fired[s]))
					}
					if d.Policy == "none" && st.visits[s] > 0 {
						out.Add("site_visits_"+gojq.VerifSiteNames[s], int64(st.visits[s]))
					}
				}
				out.Add("coins_skipped", int64(st.nSkipped))
				if st.nSkipped > 0 && st.opsDiffer {
					out.DistinctH("nontrivial", kernel.Mix(kernel.Hash64(it.src), kernel.Hash64(fmt.Sprint(d.Policy, d.Site, d.P, d.PolicySeed))))
				}
				if v != nil {
					out.Violate(v)
				}
			}
		}
		if out.WantSample() && idx%5 == 0 {
			out.Sample(map[string]any{"program": it.src, "input": it.in.JSON, "origin": it.origin})
		}
	}
}

func (Prop) Shrink(c kernel.Case) []kernel.Case {
	var d Data
	if c.Decode(&d) != nil {
		return nil
	}
	var out []kernel.Case
	add := func(e Data) { out = append(out, kernel.NewCase(ID, e.Policy, e)) }
	if d.Policy == "list" {
		n := len(d.Skips)
		for w := n / 2; w >= 1; w /= 2 {
			for i := 0; i+w <= n; i += w {
				e := d
				e.Skips = append(append([]int{}, d.Skips[:i]...), d.Skips[i+w:]...)
				add(e)
			}
		}
	}
	for _, src := range workload.ShrinkProgram(d.Src) {
		e := d
		e.Src = src
		if e.Policy == "list" {
			// visit indices do not carry over to another program: fall back to the policy that produced them
			e2 := e
			e2.Policy, e2.Skips = "all", nil
			_ = e2
		}
		add(e)
		if d.Policy == "list" {
			for s := 0; s < len(gojq.VerifSiteNames); s++ {
				e3 := e
				e3.Policy, e3.Skips, e3.Site = "site", nil, s
				add(e3)
			}
			e4 := e
			e4.Policy, e4.Skips = "none", nil
			add(e4)
		}
	}
	for _, js := range workload.ShrinkJSON(d.Input.JSON) {
		e := d
		e.Input.JSON = js
		add(e)
	}
	return out
}

func (Prop) Describe(ev *kernel.Evidence) {
	st := ev.Coverage["stats"].(map[string]int64)
	sets := ev.Coverage["distinct_sets"].(map[string]int)
	ev.Coverage["evaluations"] = st["evaluations"]
	ev.Coverage["distinct_nontrivial"] = sets["nontrivial"]
	ev.Coverage["rule"] = "one evaluation = one compile under a coin vector (skip/keep at every visit of an optimisation site) plus a run, compared output by output through the first uncaught error with the same query compiled with every coin = skip; vectors per (program, input): production (no skip), every visited site kind off, and seeded vectors with skip probability 0.1/0.5/0.9; " +
		"non-trivial and distinct = distinct (program, coin vector) with at least one coin skipped and an emitted instruction list different from production"
	sites := map[string]any{}
	for k, v := range st {
		if strings.HasPrefix(k, "site_") {
			sites[k] = v
		}
	}
	ev.Coverage["fault_kinds"] = sites
	ev.Coverage["simulated_time"] = map[string]any{"coins_skipped": st["coins_skipped"]}
	ev.Coverage["components"] = map[string]string{
		"real":      "gojq parser, compiler (with the verif switches), VM, natives",
		"simulated": "the per-site-visit skip decision (buggify coin), context for the step cap",
		"note":      "programs and inputs are ordinary seeded generation plus the corpus: that half is input generation, not simulation",
	}
	ev.Assumptions = []string{
		"the reference is the same compiler with every switch off; a defect shared by optimised and unoptimised code is invisible here (C01/C02 territory)",
		"outputs are compared up to and including the first uncaught error; what an iterator yields when advanced past an uncaught error is defined by no property",
		"runs cut by the step cap are compared on the common prefix",
	}
}
