package c17

import (
	"fmt"
	"strings"

	"verif/sim/kernel"
)

// YAMLSpec describes a well-formed multi-line, multi-document YAML text made of
// block mappings, block sequences, flow sequences and plain / quoted scalars.
// Build also returns the offsets at which a plain scalar starts (a reserved
// indicator inserted there cannot start any token) and the offsets of the
// indentation of the first line of a nested block (a tab there cannot either).
type YAMLSpec struct {
	Seed  uint64 `json:"seed"`
	Docs  int    `json:"docs"`
	Lines int    `json:"lines"`
	Wide  bool   `json:"wide,omitempty"`
	Term  string `json:"term"`
}

type yamlGen struct {
	r       *kernel.Rand
	spec    *YAMLSpec
	sb      strings.Builder
	scalars []int // offsets where a plain scalar starts
	indents []int // offsets of the indentation of the first line of a nested block (len >= 1 space)
	valEnds []int // offsets just behind a plain scalar that is the value of a block mapping entry
	uniq    int
	lines   int
}

func (g *yamlGen) word() string {
	g.uniq++
	if g.spec.Wide && g.r.Bool(0.5) {
		w := kernel.Pick(g.r, []string{"héllo", "日本語", "한국", "ßü", "ＡＢ", "emoji😀", "é", "値"})
		if g.r.Bool(0.5) {
			return fmt.Sprintf("w%d%s", g.uniq, w) // ends with a multi-byte character
		}
		return fmt.Sprintf("%s%d", w, g.uniq)
	}
	return fmt.Sprintf("%s%d", kernel.Pick(g.r, []string{"alpha", "beta", "key", "value", "x"}), g.uniq)
}

func (g *yamlGen) scalar() {
	switch g.r.Weighted([]int{5, 2, 2, 1}) {
	case 0:
		g.scalars = append(g.scalars, g.sb.Len())
		g.sb.WriteString(g.word())
	case 1:
		g.sb.WriteString(`"` + g.word() + ` quoted"`)
	case 2:
		g.scalars = append(g.scalars, g.sb.Len())
		g.uniq++
		fmt.Fprintf(&g.sb, "%d", g.uniq)
	default:
		g.sb.WriteString("[")
		n := g.r.Range(1, 3)
		for i := 0; i < n; i++ {
			if i > 0 {
				g.sb.WriteString(", ")
			}
			g.scalars = append(g.scalars, g.sb.Len())
			g.sb.WriteString(g.word())
		}
		g.sb.WriteString("]")
	}
}

func (g *yamlGen) block(indent, depth int) {
	n := g.r.Range(1, 4)
	seq := g.r.Bool(0.3)
	for i := 0; i < n && g.lines < g.spec.Lines; i++ {
		pad := strings.Repeat(" ", indent)
		if i == 0 && indent > 0 {
			g.indents = append(g.indents, g.sb.Len())
		}
		g.sb.WriteString(pad)
		g.lines++
		if seq {
			g.sb.WriteString("- ")
			g.scalar()
			g.sb.WriteString(g.spec.Term)
			continue
		}
		g.sb.WriteString(g.word() + ":")
		if depth > 0 && g.r.Bool(0.35) {
			g.sb.WriteString(g.spec.Term)
			g.block(indent+2, depth-1)
			continue
		}
		g.sb.WriteString(" ")
		ns := len(g.scalars)
		before := g.sb.Len()
		g.scalar()
		if len(g.scalars) == ns+1 && g.scalars[ns] == before {
			g.valEnds = append(g.valEnds, g.sb.Len()) // a plain word or number, not quoted, not a flow sequence
		}
		g.sb.WriteString(g.spec.Term)
	}
}

// ValueEnds returns the offsets just behind the plain scalar values of block mapping entries: a
// `: x` there is a second mapping value on one line, which YAML forbids.
func (s *YAMLSpec) ValueEnds() []int {
	g := &yamlGen{r: kernel.NewRand(kernel.Mix(s.Seed, 171)), spec: s}
	for d := 0; d < max(1, s.Docs); d++ {
		if d > 0 {
			g.sb.WriteString("---" + s.Term)
		}
		g.lines = 0
		g.block(0, 3)
	}
	return g.valEnds
}

func (s *YAMLSpec) Build() (text string, scalars, indents []int) {
	g := &yamlGen{r: kernel.NewRand(kernel.Mix(s.Seed, 171)), spec: s}
	for d := 0; d < max(1, s.Docs); d++ {
		if d > 0 {
			g.sb.WriteString("---" + s.Term)
		}
		g.lines = 0
		g.block(0, 3)
	}
	return g.sb.String(), g.scalars, g.indents
}
