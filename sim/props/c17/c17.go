// Package c17 decides C17 (reported error positions point at the offending
// byte) by fault enumeration: one corruption at a known byte of a well-formed
// text, crossed with the delivery schedule and the transport through which
// the command receives the text.
package c17

import (
	"encoding/hex"
	"fmt"
	"os"
	"path/filepath"
	"regexp"
	"strconv"
	"strings"
	"unicode/utf8"

	"github.com/itchyny/gojq"
	"github.com/itchyny/gojq/cli"
	"github.com/mattn/go-runewidth"

	"verif/sim/kernel"
	"verif/sim/seams/simio"
)

const ID = "C17"

type Prop struct{}

func (Prop) ID() string    { return ID }
func (Prop) Level() string { return "fault_enumeration" }

// Corruption is the injected fault.
type Corruption struct {
	Kind  string `json:"kind"`  // insert | truncate
	Pos   int    `json:"pos"`   // byte offset in the well-formed text
	Bytes string `json:"bytes"` // inserted bytes (insert)
	Off   int    `json:"off"`   // index within Bytes of the offending byte
	// Hex, if set, holds the inserted bytes instead of Bytes: JSON cannot carry bytes that are not
	// valid UTF-8, and a replay file must reproduce the text exactly.
	Hex string `json:"hex,omitempty"`
}

func (c Corruption) inserted() string {
	if c.Hex != "" {
		bs, _ := hex.DecodeString(c.Hex)
		return string(bs)
	}
	return c.Bytes
}

// binarySafe moves inserted bytes that are not valid UTF-8 into Hex.
func (c Corruption) binarySafe() Corruption {
	if c.Hex == "" && !utf8.ValidString(c.Bytes) {
		c.Hex, c.Bytes = hex.EncodeToString([]byte(c.Bytes)), ""
	}
	return c
}

type Data struct {
	Format    string     `json:"format"` // json | query | yaml
	Text      TextSpec   `json:"text"`
	Query     *QuerySpec `json:"query,omitempty"`
	YAML      *YAMLSpec  `json:"yaml,omitempty"`
	Corrupt   Corruption `json:"corrupt"`
	Transport string     `json:"transport"` // pipe | seek | file | slurpfile | argjson | stream-pipe | arg | fromfile | ...
	// FromLibrary: an arbitrary token-level mutation of a query; which token is at fault is not known
	// by construction, so the offending byte is taken from the library's ParseError (after checking
	// that its Offset and Token are consistent with the source) and the command's line, excerpt and
	// caret are checked against that byte.
	FromLibrary bool `json:"from_library,omitempty"`
	offOverride *int
	eofOverride bool
	altText     *string        // run this text instead (metamorphic variants)
	Plan        simio.ReadPlan `json:"plan"`
	PlanClass   string         `json:"plan_class,omitempty"`
}

type tiers struct {
	SmallTexts, LargeTexts, PosPerLarge, PlansPerPos int
	Queries                                          int
}

func tier(t string) tiers {
	if t == "thorough" {
		return tiers{SmallTexts: 12000, LargeTexts: 6000, PosPerLarge: 120, PlansPerPos: 3, Queries: 20000}
	}
	return tiers{SmallTexts: 1200, LargeTexts: 480, PosPerLarge: 40, PlansPerPos: 2, Queries: 2000}
}

func (Prop) Units(t string, seed uint64) int {
	tr := tier(t)
	return tr.SmallTexts/4 + tr.LargeTexts + tr.Queries/20 + tr.Queries/20
}

// ---- the corrupted input and where the offending byte is ---------------------

func (d *Data) corrupted() (text string, offending int, eof bool) {
	if d.altText != nil {
		return *d.altText, len(*d.altText), true
	}
	text, offending, eof = d.corrupted0()
	if d.offOverride != nil {
		offending, eof = *d.offOverride, d.eofOverride
	}
	return
}

func (d *Data) corrupted0() (text string, offending int, eof bool) {
	var t string
	if d.Format == "query" && d.Query != nil {
		t = d.Query.Text()
	} else if d.Format == "yaml" && d.YAML != nil {
		t, _, _ = d.YAML.Build()
	} else {
		t, _ = d.Text.Build()
	}
	c := d.Corrupt
	if c.Pos > len(t) {
		c.Pos = len(t)
	}
	switch c.Kind {
	case "truncate":
		return t[:c.Pos], c.Pos, true
	default:
		text, off := t[:c.Pos]+c.inserted()+t[c.Pos:], c.Pos+c.Off
		if d.Transport == "module" {
			// the query is the body of a definition in a module file
			const pre = "def f: "
			return pre + text + ";\n", off + len(pre), false
		}
		return text, off, false
	}
}

// lineOf returns the 1-based line of byte i and the [start,end) of that line's
// content, counting LF, CRLF and lone CR as terminators. A terminator belongs
// to the line it ends.
func lineOf(t string, i int) (line, start, end int) {
	line, start = 1, 0
	for p := 0; p < len(t); {
		var tl int
		switch {
		case t[p] == '\r' && p+1 < len(t) && t[p+1] == '\n':
			tl = 2
		case t[p] == '\r' || t[p] == '\n':
			tl = 1
		}
		if tl == 0 {
			p++
			continue
		}
		if i < p+tl { // i is in this line's content or its terminator
			return line, start, p
		}
		p += tl
		line++
		start = p
	}
	return line, start, len(t)
}

// ---- running the command --------------------------------------------------------

type result struct {
	stdout, stderr string
	exit           int
	panicked       string
	reads          int
}

var scratchDir string

func scratch() string {
	if scratchDir == "" {
		base := os.Getenv("VERIF_SCRATCH")
		if base == "" {
			base = filepath.Join(os.Getenv("VERIF_DIR"), ".build")
			if os.Getenv("VERIF_DIR") == "" {
				base = "/verif/.build"
			}
		}
		os.MkdirAll(base, 0o755)
		d, err := os.MkdirTemp(base, "files-")
		if err != nil {
			panic(err)
		}
		scratchDir = d
	}
	return scratchDir
}

func runCLI(stdin []byte, plan simio.ReadPlan, args []string) (res result) {
	in := simio.NewReader(stdin, plan)
	out, errw := simio.NewWriter(-1), simio.NewWriter(-1)
	defer func() {
		if r := recover(); r != nil {
			res.panicked = fmt.Sprint(r)
		}
		res.stdout, res.stderr = out.String(), errw.String()
		res.reads = simio.Unwrap(in).Reads
	}()
	res.exit = cli.VerifRun(in, out, errw, args)
	return
}

// display abstracts the randomly named scratch directory away so that reports are the same in every process.
func display(s string) string {
	if scratchDir == "" {
		return s
	}
	return strings.ReplaceAll(s, scratchDir, "$SCRATCH")
}

func (d *Data) run() (result, string) {
	text, _, _ := d.corrupted()
	switch d.Transport {
	case "pipe", "seek":
		p := d.Plan
		p.Seekable = d.Transport == "seek"
		if d.Format == "yaml" {
			return runCLI([]byte(text), p, []string{"-c", "--yaml-input", "."}), "<stdin>"
		}
		return runCLI([]byte(text), p, []string{"-c", "."}), "<stdin>"
	case "yaml-file":
		f := filepath.Join(scratch(), "input.yaml")
		os.WriteFile(f, []byte(text), 0o644)
		return runCLI(nil, simio.ReadPlan{}, []string{"-c", "--yaml-input", ".", f}), f
	case "stream-pipe":
		return runCLI([]byte(text), d.Plan, []string{"-c", "--stream", "."}), "<stdin>"
	case "slurp-pipe":
		return runCLI([]byte(text), d.Plan, []string{"-c", "-s", "length"}), "<stdin>"
	case "file", "file-after-stdin":
		f := filepath.Join(scratch(), "input.json")
		os.WriteFile(f, []byte(text), 0o644)
		if d.Transport == "file" {
			return runCLI(nil, simio.ReadPlan{}, []string{"-c", ".", f}), f
		}
		return runCLI([]byte("1 2\n"), d.Plan, []string{"-c", ".", "-", f}), f
	case "slurpfile":
		f := filepath.Join(scratch(), "slurp.json")
		os.WriteFile(f, []byte(text), 0o644)
		return runCLI(nil, simio.ReadPlan{}, []string{"-n", "--slurpfile", "v", f, "$v|length"}), f
	case "argjson":
		return runCLI(nil, simio.ReadPlan{}, []string{"-n", "--argjson", "v", text, "$v"}), "$v"
	case "datamodule":
		dir := filepath.Join(scratch(), "mods")
		os.MkdirAll(dir, 0o755)
		f := filepath.Join(dir, "d.json")
		os.WriteFile(f, []byte(text), 0o644)
		return runCLI(nil, simio.ReadPlan{}, []string{"-n", "-L", dir, `import "d" as $d; $d | length`}), f
	case "module":
		dir := filepath.Join(scratch(), "mods")
		os.MkdirAll(dir, 0o755)
		f := filepath.Join(dir, "m.jq")
		os.WriteFile(f, []byte(text), 0o644)
		return runCLI([]byte("null"), simio.ReadPlan{}, []string{"-L", dir, `import "m" as m; m::f`}), f
	case "arg":
		return runCLI([]byte("null"), simio.ReadPlan{}, []string{text}), "<arg>"
	case "fromfile":
		f := filepath.Join(scratch(), "query.jq")
		os.WriteFile(f, []byte(text), 0o644)
		return runCLI([]byte("null"), simio.ReadPlan{}, []string{"-f", f}), f
	}
	return result{panicked: "unknown transport " + d.Transport}, ""
}

// ---- the oracle --------------------------------------------------------------------

var headerRe = regexp.MustCompile(`invalid (json|query|yaml): (.*)$`)

func viol(d *Data, class, format string, args ...any) *kernel.Violation {
	text, off, eof := d.corrupted()
	line, ls, le := lineOf(text, off)
	ctx := text[ls:le]
	if len(ctx) > 160 {
		ctx = ctx[:160] + "..."
	}
	return &kernel.Violation{Property: ID, Class: class, Case: kernel.NewCase(ID, d.Format, d),
		Detail: fmt.Sprintf("format=%s transport=%s plan=%s corruption=%+v input_bytes=%d offending_byte=%d eof=%v expected_line=%d\nline content: %q\n", d.Format, d.Transport, d.PlanClass, d.Corrupt, len(text), off, eof, line, ctx) + display(fmt.Sprintf(format, args...))}
}

// judge checks what the command printed against the known offending byte.
func judge(d *Data, res result, fname string) *kernel.Violation {
	text, off, eof := d.corrupted()
	if res.panicked != "" {
		return viol(d, "panic", "the command panicked: %s", res.panicked)
	}
	lines := strings.Split(res.stderr, "\n")
	h := -1
	var hm []string
	for i, l := range lines {
		if m := headerRe.FindStringSubmatch(l); m != nil {
			h, hm = i, m
			break
		}
	}
	if h < 0 {
		if eof {
			// a truncation at a document boundary is no error at all; C16 judges those
			return nil
		}
		return viol(d, "no-diagnostic", "no `invalid %s` diagnostic on stderr (exit %d); stderr: %q", d.Format, res.exit, kernel.Short2(res.stderr, 400))
	}
	if res.exit == 0 {
		return viol(d, "exit-status", "a diagnostic was printed but the exit status is 0")
	}
	// The query in its one-line form is echoed in the header; multi-line forms follow.
	ci := -1
	for i := h + 1; i < len(lines); i++ {
		if caretRe.MatchString(lines[i]) {
			ci = i
			break
		}
	}
	if ci < 0 || ci-1 <= h && false {
		return viol(d, "no-caret", "no caret line after the diagnostic header; stderr: %q", kernel.Short2(res.stderr, 600))
	}
	exLine := lines[ci-1]
	caretPos := strings.IndexByte(lines[ci], '^')
	// line number and gutter
	gotLine, gutter := 1, 4
	if k := strings.LastIndexByte(hm[2], ':'); k >= 0 {
		if n, err := strconv.Atoi(hm[2][k+1:]); err == nil {
			g := "    " + strconv.Itoa(n) + " | "
			if strings.HasPrefix(exLine, g) || exLine+" " == g {
				gotLine, gutter = n, len(g)
			}
		}
	}
	if ci-1 == h {
		return viol(d, "no-excerpt", "no excerpt line between header and caret; stderr: %q", kernel.Short2(res.stderr, 600))
	}
	excerpt := ""
	if len(exLine) >= gutter {
		excerpt = exLine[gutter:]
	} else if strings.TrimRight(exLine, " ") != strings.TrimRight("    "+strconv.Itoa(gotLine)+" |", " ") && strings.TrimSpace(exLine) != "" {
		return viol(d, "excerpt", "cannot split the excerpt line %q", exLine)
	}
	caretCol := caretPos - gutter
	wantLine, ls, le := lineOf(text, off)
	lineText := text[ls:le]
	// end-of-input errors: the offending position is the end; when the input ends with a
	// terminator both the line it terminates and the (empty) next line are acceptable
	altLine := -1
	if eof && off == len(text) && off > 0 && (text[off-1] == '\n' || text[off-1] == '\r') {
		l2, s2, e2 := lineOf(text, off-1)
		altLine = l2
		if gotLine == l2 {
			wantLine, ls, le = l2, s2, e2
			lineText = text[ls:le]
		}
	}
	if gotLine != wantLine {
		_ = altLine
		return viol(d, "line", "reported line %d, the offending byte is on line %d\nstderr: %q", gotLine, wantLine, kernel.Short2(res.stderr, 600))
	}
	if !utf8.ValidString(excerpt) && utf8.ValidString(lineText) {
		return viol(d, "excerpt", "the excerpt is not valid UTF-8 (a multi-byte character was cut): %q", excerpt)
	}
	if caretCol < 0 {
		return viol(d, "caret", "the caret stands left of the excerpt; stderr: %q", kernel.Short2(res.stderr, 600))
	}
	// the excerpt must be a contiguous part of that line containing the offending byte
	rel := off - ls // offending byte relative to the line start (may be == len(lineText) for EOF / a terminator)
	if rel > len(lineText) {
		rel = len(lineText)
	}
	found, inside := false, false
	var whyCaret string
	for o := 0; o+len(excerpt) <= len(lineText); o++ {
		if lineText[o:o+len(excerpt)] != excerpt {
			continue
		}
		found = true
		if rel < o || rel > o+len(excerpt) {
			continue // the offending byte is outside this occurrence
		}
		if rel == o+len(excerpt) && rel < len(lineText) && lineText[rel] < utf8.RuneSelf {
			// the excerpt stops right before the offending byte: tolerated only for a multi-byte
			// offending character (a delivery may have split it, and a partial character is not quoted)
			continue
		}
		inside = true
		w := runewidth.StringWidth(lineText[o:rel])
		cw := 1
		if rel < len(lineText) {
			r, _ := utf8.DecodeRuneInString(lineText[rel:])
			cw = max(1, runewidth.RuneWidth(r))
		}
		lo, hi := w, w+cw-1
		if rel >= len(lineText) { // end of line / end of input: at or one past the end
			lo, hi = max(0, w-1), w+1
		}
		if caretCol >= lo && caretCol <= hi {
			return nil
		}
		whyCaret = fmt.Sprintf("the caret is at column %d of the excerpt, the offending character occupies columns %d..%d", caretCol, lo, hi)
	}
	switch {
	case !found:
		return viol(d, "excerpt", "the quoted text %q is not part of line %d of the input\nstderr: %q", excerpt, wantLine, kernel.Short2(res.stderr, 600))
	case !inside:
		return viol(d, "excerpt", "the quoted text %q does not contain the offending byte (offset %d in its line)\nstderr: %q", excerpt, rel, kernel.Short2(res.stderr, 600))
	default:
		return viol(d, "caret", "%s\nstderr: %q", whyCaret, kernel.Short2(res.stderr, 600))
	}
}

var caretRe = regexp.MustCompile(`^ *\^(  |$)`)

func (Prop) Exec(c kernel.Case) *kernel.Violation {
	var d Data
	if err := c.Decode(&d); err != nil {
		return &kernel.Violation{Property: ID, Class: "bad-case", Detail: err.Error(), Case: c}
	}
	return execData(&d)
}

func execData(d *Data) *kernel.Violation {
	if d.FromLibrary {
		return execFromLibrary(d)
	}
	if d.Format == "query" {
		if v := judgeParseError(d); v != nil {
			return v
		}
	}
	res, fname := d.run()
	lastResult = res
	if v := judge(d, res, fname); v != nil {
		return v
	}
	return terminatorInvariance(d, res)
}

var lastResult result

// parseReport extracts line number, excerpt and caret column from a diagnostic.
func parseReport(stderr string) (line int, excerpt string, caretCol int, ok bool) {
	lines := strings.Split(stderr, "\n")
	h := -1
	var hm []string
	for i, l := range lines {
		if m := headerRe.FindStringSubmatch(l); m != nil {
			h, hm = i, m
			break
		}
	}
	if h < 0 {
		return 0, "", 0, false
	}
	ci := -1
	for i := h + 1; i < len(lines); i++ {
		if caretRe.MatchString(lines[i]) {
			ci = i
			break
		}
	}
	if ci < 0 || ci-1 == h {
		return 0, "", 0, false
	}
	exLine := lines[ci-1]
	line, gutter := 1, 4
	if k := strings.LastIndexByte(hm[2], ':'); k >= 0 {
		if n, err := strconv.Atoi(hm[2][k+1:]); err == nil {
			g := "    " + strconv.Itoa(n) + " | "
			if strings.HasPrefix(exLine, g) || exLine+" " == g {
				line, gutter = n, len(g)
			}
		}
	}
	if len(exLine) >= gutter {
		excerpt = exLine[gutter:]
	}
	return line, excerpt, strings.IndexByte(lines[ci], '^') - gutter, true
}

// terminatorInvariance: for an error at the end of an input that ends with a line terminator the
// statement leaves open whether the terminated line or the empty one after it is named; whichever
// it is, it must not depend on the kind of terminator (LF, CRLF and lone CR each end one line).
// The same text with every terminator written as LF must yield the same line, excerpt and caret.
func terminatorInvariance(d *Data, res result) *kernel.Violation {
	text, off, eof := d.corrupted()
	if !eof || off != len(text) || d.altText != nil || d.Format == "yaml" || d.Transport == "arg" || d.Transport == "argjson" || !strings.ContainsRune(text, '\r') {
		return nil
	}
	if !strings.HasSuffix(text, "\n") && !strings.HasSuffix(text, "\r") {
		return nil
	}
	alt := strings.ReplaceAll(strings.ReplaceAll(text, "\r\n", "\n"), "\r", "\n")
	d2 := *d
	d2.altText = &alt
	d2.Plan = simio.ReadPlan{}
	res2, _ := d2.run()
	l1, e1, c1, ok1 := parseReport(res.stderr)
	l2, e2, c2, ok2 := parseReport(res2.stderr)
	if ok1 != ok2 || l1 != l2 || e1 != e2 || c1 != c2 {
		return viol(d, "terminator-dependence", "the report for an error at the end of input depends on the kind of line terminator\nas given (CR/CRLF):  line %d excerpt %q caret column %d (diagnostic: %v)\nall terminators LF: line %d excerpt %q caret column %d (diagnostic: %v)\nstderr as given: %q\nstderr with LF:  %q", l1, e1, c1, ok1, l2, e2, c2, ok2, kernel.Short2(res.stderr, 300), kernel.Short2(res2.stderr, 300))
	}
	return nil
}

// execFromLibrary: consistency of the library's ParseError with the source, then the command's
// report against the byte the library names.
func execFromLibrary(d *Data) *kernel.Violation {
	d.offOverride = nil
	text, _, _ := d.corrupted()
	var perr *gojq.ParseError
	var panicked string
	func() {
		defer func() {
			if r := recover(); r != nil {
				panicked = fmt.Sprint(r)
			}
		}()
		if _, err := gojq.Parse(text); err != nil {
			perr, _ = err.(*gojq.ParseError)
			if perr == nil {
				panicked = "Parse returned a non-ParseError: " + err.Error()
			}
		}
	}()
	lastResult = result{}
	if panicked != "" {
		return viol(d, "panic", "gojq.Parse: %s", panicked)
	}
	if perr == nil {
		return nil // the mutation happens to be a valid query
	}
	if perr.Offset < 0 || perr.Offset > len(text) {
		return viol(d, "parse-error-offset", "ParseError.Offset %d outside the source (len %d)", perr.Offset, len(text))
	}
	start := perr.Offset - len(perr.Token)
	if start < 0 || text[start:perr.Offset] != perr.Token {
		return viol(d, "parse-error-token", "ParseError.Token %q is not the source text that ends at Offset %d (%q): Offset and Token do not identify the same bytes", perr.Token, perr.Offset, text[max(0, start):perr.Offset])
	}
	if perr.Token == "" && perr.Offset != len(text) {
		return nil // an empty token inside the text (e.g. an unterminated interpolation): nothing to point at
	}
	if d.Transport == "arg" && strings.TrimSpace(text) != text {
		return nil // the command trims the argument: positions shift
	}
	d.offOverride, d.eofOverride = &start, perr.Token == ""
	defer func() { d.offOverride = nil }()
	res, fname := d.run()
	lastResult = res
	return judge(d, res, fname)
}

// judgeParseError checks the library's ParseError against the inserted token.
func judgeParseError(d *Data) *kernel.Violation {
	text, off, eof := d.corrupted()
	var perr *gojq.ParseError
	var panicked string
	func() {
		defer func() {
			if r := recover(); r != nil {
				panicked = fmt.Sprint(r)
			}
		}()
		_, err := gojq.Parse(text)
		if err != nil {
			perr, _ = err.(*gojq.ParseError)
			if perr == nil {
				panicked = "Parse returned a non-ParseError: " + err.Error()
			}
		}
	}()
	if panicked != "" {
		return viol(d, "panic", "gojq.Parse: %s", panicked)
	}
	if perr == nil {
		if eof {
			return nil
		}
		return viol(d, "no-diagnostic", "gojq.Parse accepted the corrupted query")
	}
	if perr.Offset < 0 || perr.Offset > len(text) {
		return viol(d, "parse-error-offset", "ParseError.Offset %d outside the source (len %d)", perr.Offset, len(text))
	}
	if eof || d.Corrupt.Kind != "insert" || d.Query == nil || !d.Query.TokenFault {
		return nil
	}
	start := perr.Offset - len(perr.Token)
	if perr.Token == "" || start < 0 || text[start:perr.Offset] != perr.Token {
		return viol(d, "parse-error-token", "ParseError.Token %q is not the source text that ends at Offset %d (%q)", perr.Token, perr.Offset, text[max(0, start):perr.Offset])
	}
	if start != off {
		return viol(d, "parse-error-offset", "ParseError.Offset-len(Token) = %d (Token %q), the token at fault starts at byte %d", start, perr.Token, off)
	}
	return nil
}

// ---- generation -----------------------------------------------------------------------

var terms = []string{"\n", "\n", "\r\n", "\r"}

func genTextSpec(r *kernel.Rand, large bool) TextSpec {
	s := TextSpec{Seed: r.Uint64(), Term: kernel.Pick(r, terms), Indent: kernel.Pick(r, []int{0, 1, 2, 2, 4}), Wide: r.Bool(0.5), Long: r.Bool(0.4), Big: -1}
	if large {
		s.Docs = kernel.Pick(r, []int{1, 1, 2, 3, 8, 40})
		s.Bytes = kernel.Pick(r, []int{9000, 17000, 17000, 20000, 33000, 36000, 50000, 66000, 82000})
		if r.Bool(0.08) {
			// tens of thousands of tiny lines: line numbers of five digits
			s.Tiny, s.Bytes = true, kernel.Pick(r, []int{30000, 70000, 120000})
		}
		if s.Docs > 1 && r.Bool(0.6) {
			s.Big = r.Intn(s.Docs)
		}
	} else {
		s.Docs = r.Range(1, 4)
		s.Bytes = r.Range(10, 300)
	}
	return s
}

var jsonTransports = []string{"pipe", "pipe", "pipe", "seek", "file", "file-after-stdin", "stream-pipe", "slurp-pipe", "slurpfile", "datamodule"}

// corruptionAt builds the corruption for an insertion before byte p.
func corruptionAt(r *kernel.Rand, text string, inside, boundary []bool, p int) (Corruption, bool) {
	if !boundary[p] {
		return Corruption{}, false
	}
	if inside[p] {
		switch r.Weighted([]int{3, 2}) {
		case 0:
			return Corruption{Kind: "insert", Pos: p, Bytes: "\\q", Off: 1}, true
		default:
			return Corruption{Kind: "insert", Pos: p, Bytes: "\x01", Off: 0}, true
		}
	}
	return Corruption{Kind: "insert", Pos: p, Bytes: kernel.Pick(r, []string{"@", "@", "\x01", "あ", "&"}), Off: 0}, true
}

func (Prop) RunUnit(env *kernel.Env, unit int) {
	tr := tier(env.Tier)
	out := env.Out
	r := kernel.NewRand(kernel.Mix(env.Seed, 17, 1, uint64(unit)))
	smallUnits := tr.SmallTexts / 4
	try := func(d *Data) bool {
		out.Mark(kernel.NewCase(ID, d.Format, d))
		v := execData(d)
		res := lastResult
		out.Inc("evaluations")
		out.Add("bytes_delivered", int64(len(res.stdout))+0)
		out.Add("reads", int64(res.reads))
		out.Inc("transport_" + d.Transport)
		out.Inc("format_" + d.Format)
		out.Inc("corruption_" + d.Corrupt.Kind)
		if d.PlanClass != "" {
			out.Inc("plan_" + d.PlanClass)
		}
		out.DistinctH("nontrivial", kernel.Hash64(fmt.Sprint(d.Text, d.Query, d.Corrupt, d.Transport, d.Plan)))
		if v != nil {
			out.Violate(v)
			return out.IsKnown(v) // a listed finding does not end the sweep of this text
		}
		return true
	}
	switch {
	case unit < smallUnits:
		// small texts: every insertion position and every truncation offset, several transports
		for k := 0; k < 4; k++ {
			spec := genTextSpec(r, false)
			text, _ := spec.Build()
			inside, boundary := inStringMap(text)
			for p := 0; p <= len(text); p++ {
				for _, kind := range []string{"insert", "truncate"} {
					var c Corruption
					if kind == "insert" {
						var ok bool
						if c, ok = corruptionAt(r, text, inside, boundary, p); !ok {
							continue
						}
					} else {
						if p == len(text) || !boundary[p] {
							continue
						}
						c = Corruption{Kind: "truncate", Pos: p}
					}
					tps := jsonTransports
					first := strings.TrimLeft(text, " \t\r\n")
					if spec.Docs == 1 && p < len(strings.TrimRight(text, " \t\r\n")) && p > len(text)-len(first) && strings.ContainsRune("[{\"", rune(first[0])) {
						// --argjson reads exactly one document and ignores what follows it: only faults
						// inside a container or a string are certain to be seen (a fault inside a number
						// or a literal can leave a complete shorter document followed by garbage)
						tps = append([]string{"argjson", "argjson"}, jsonTransports...)
					}
					d := &Data{Format: "json", Text: spec, Corrupt: c, Transport: kernel.Pick(r, tps)}
					d.Plan, d.PlanClass = simio.GenPlan(r, len(text), []int{p, p + 1})
					if !try(d) {
						break
					}
				}
			}
			out.Inc("texts_all_positions")
			if out.WantSample() && k == 0 {
				out.Sample(map[string]any{"format": "json", "text_spec": spec, "text": kernel.Short2(text, 200), "every_position": true})
			}
		}
	case unit < smallUnits+tr.LargeTexts:
		// large texts: positions sampled with bias to window multiples and the read-ahead region
		spec := genTextSpec(r, true)
		text, starts := spec.Build()
		inside, boundary := inStringMap(text)
		out.Max("max_text_bytes", int64(len(text)))
		var cands []int
		for w := 16384; w < len(text)+16384; w += 16384 {
			for _, dlt := range []int{-600, -65, -2, -1, 0, 1, 2, 65, 600, 4096, 4097} {
				cands = append(cands, w+dlt)
			}
		}
		for _, s := range starts {
			cands = append(cands, s, s+1, s-1, s+30)
		}
		for len(cands) < tr.PosPerLarge*2 {
			cands = append(cands, r.Intn(len(text)+1))
		}
		perm := r.Perm(len(cands))
		n := 0
		for _, pi := range perm {
			p := cands[pi]
			if p < 0 || p > len(text) || n >= tr.PosPerLarge {
				continue
			}
			var c Corruption
			if r.Bool(0.8) {
				var ok bool
				if c, ok = corruptionAt(r, text, inside, boundary, p); !ok {
					continue
				}
			} else if p < len(text) && boundary[p] {
				c = Corruption{Kind: "truncate", Pos: p}
			} else {
				continue
			}
			n++
			for k := 0; k < tr.PlansPerPos; k++ {
				d := &Data{Format: "json", Text: spec, Corrupt: c, Transport: kernel.Pick(r, jsonTransports)}
				d.Plan, d.PlanClass = simio.GenPlan(r, len(text), []int{p, p + 1})
				if !try(d) {
					return
				}
			}
		}
		if out.WantSample() {
			out.Sample(map[string]any{"format": "json", "text_spec": spec, "text_bytes": len(text), "positions_tried": n, "first_200_bytes": kernel.Short2(text, 200)})
		}
	case unit >= smallUnits+tr.LargeTexts+tr.Queries/20:
		// YAML: a reserved indicator where a plain scalar starts, a tab as the indentation of a nested
		// block, a forbidden control byte; every such position of each generated text
		for k := 0; k < 20; k++ {
			spec := YAMLSpec{Seed: r.Uint64(), Docs: r.Range(1, 3), Lines: r.Range(2, 40), Wide: r.Bool(0.6), Term: kernel.Pick(r, []string{"\n", "\n", "\r\n"})}
			if r.Bool(0.1) {
				spec.Lines = r.Range(400, 1500) // beyond the reader's window
			}
			text, scalars, indents := spec.Build()
			var cs []Corruption
			for _, p := range scalars {
				cs = append(cs, Corruption{Kind: "insert", Pos: p, Bytes: kernel.Pick(r, []string{"@", "`"}), Off: 0})
			}
			for _, p := range indents {
				cs = append(cs, Corruption{Kind: "insert", Pos: p, Bytes: "\t", Off: 0})
			}
			for _, p := range spec.ValueEnds() {
				// a second mapping value on the line: the offending byte follows the scalar directly,
				// multi-byte characters included
				cs = append(cs, Corruption{Kind: "insert", Pos: p, Bytes: ": x", Off: 0})
			}
			if len(text) > 0 {
				cs = append(cs, Corruption{Kind: "insert", Pos: r.Intn(len(text)), Bytes: "\x01", Off: 0})
			}
			if len(cs) > 60 {
				pm := r.Perm(len(cs))
				var sel []Corruption
				for _, i := range pm[:60] {
					sel = append(sel, cs[i])
				}
				cs = sel
			}
			for _, c := range cs {
				sp := spec
				d := &Data{Format: "yaml", YAML: &sp, Corrupt: c, Transport: kernel.Pick(r, []string{"pipe", "seek", "yaml-file"})}
				d.Plan, d.PlanClass = simio.GenPlan(r, len(text), []int{c.Pos, c.Pos + 1})
				if !try(d) {
					break
				}
			}
			out.Inc("yaml_texts_all_positions")
		}
	default:
		for k := 0; k < 20; k++ {
			q := genQuerySpec(r)
			qt := q.Text()
			if _, err := gojq.Parse(qt); err != nil {
				out.Inc("generated_query_not_well_formed_skipped")
				continue
			}
			for _, p := range q.boundaries() {
				c := q.corruptionAt(r, p)
				for _, tp := range []string{"arg", "fromfile", "module"} {
					if tp == "module" && !q.TokenFault {
						continue // an unterminated string would swallow the rest of the module
					}
					qq := q
					d := &Data{Format: "query", Query: &qq, Corrupt: c, Transport: tp}
					if !try(d) {
						break
					}
				}
			}
			// invalid escape sequences inside the string literals
			q.TokenFault = true
			for _, c := range q.escapeCorruptions(r) {
				for _, tp := range []string{"arg", "fromfile", "module"} {
					qq := q
					d := &Data{Format: "query", Query: &qq, Corrupt: c, Transport: tp}
					if !try(d) {
						break
					}
					out.Inc("query_invalid_escape")
				}
			}
			// arbitrary token-level mutations: insert any kind of token at any boundary
			q.TokenFault = false
			for m, nm := 0, 3*len(q.boundaries()); m < nm; m++ {
				qq := q
				if r.Bool(0.12) {
					// text that starts with a byte order mark (or another character the lexer rejects or
					// skips): whatever the command does with it, the position it prints must be a
					// position in the text it was given
					qq.Tokens = append([]string{kernel.Pick(r, []string{"\ufeff", "\ufeff", "\u200b", "\u00a0", "\ufeff\ufeff"}) + q.Tokens[0]}, q.Tokens[1:]...)
				}
				bs := qq.boundaries()
				tok := kernel.Pick(r, tokenCatalogue)
				c := Corruption{Kind: "insert", Pos: bs[r.Intn(len(bs))], Bytes: tok + " ", Off: 0}
				if c.Pos == len(qq.Text()) {
					c.Bytes = " " + tok
				}
				d := &Data{Format: "query", Query: &qq, Corrupt: c.binarySafe(), Transport: kernel.Pick(r, []string{"arg", "fromfile", "module"}), FromLibrary: true}
				if !try(d) {
					break
				}
				out.Inc("query_arbitrary_token_mutations")
			}
			_ = qt
			out.Inc("queries_all_boundaries")
		}
	}
}

func (Prop) Shrink(c kernel.Case) []kernel.Case {
	var d Data
	if c.Decode(&d) != nil {
		return nil
	}
	var out []kernel.Case
	add := func(e Data) { out = append(out, kernel.NewCase(ID, e.Format, e)) }
	if d.Format != "json" {
		return out
	}
	// simpler delivery
	if len(d.Plan.Chunks) > 0 || d.Plan.Rest != 0 {
		e := d
		e.Plan = simio.ReadPlan{}
		add(e)
		e = d
		e.Plan = simio.ReadPlan{Rest: 512}
		add(e)
		e = d
		e.Plan = simio.ReadPlan{Rest: 1}
		add(e)
	}
	if d.Transport != "pipe" {
		e := d
		e.Transport = "pipe"
		add(e)
	}
	// materialise and cut the text around the corruption (whole lines)
	text, _ := d.Text.Build()
	pos := d.Corrupt.Pos
	cut := func(from, to int) {
		if from < 0 || to > len(text) || from >= to || pos < from || pos > to {
			return
		}
		e := d
		e.Text = TextSpec{HasRaw: true, Raw: text[from:to], Term: d.Text.Term}
		e.Corrupt.Pos = pos - from
		add(e)
	}
	// drop leading documents / lines: only at line boundaries where the remaining text is still a valid stream prefix is unknown, so try generously
	for _, frac := range []int{2, 4, 8} {
		cut(0, pos+(len(text)-pos)/frac)
	}
	cut(0, min(len(text), pos+200))
	cut(0, min(len(text), pos+1))
	return out
}

func (Prop) Describe(ev *kernel.Evidence) {
	st := ev.Coverage["stats"].(map[string]int64)
	sets := ev.Coverage["distinct_sets"].(map[string]int)
	ev.Coverage["evaluations"] = st["evaluations"]
	ev.Coverage["distinct_nontrivial"] = sets["nontrivial"]
	ev.Coverage["rule"] = "one evaluation = one in-process run of the command on a text with one corruption at a known byte, under one transport and one delivery schedule; " +
		"small texts: every insertion position and every truncation offset; large texts (up to 5 reader windows): positions sampled with bias to multiples of 16 KiB, the read-ahead region and document starts; queries: every token boundary; " +
		"distinct = distinct (text, corruption, transport, schedule); every case is non-trivial (it carries exactly one fault)"
	fk := map[string]int64{}
	for k, v := range st {
		if strings.HasPrefix(k, "corruption_") || strings.HasPrefix(k, "transport_") || strings.HasPrefix(k, "plan_") || strings.HasPrefix(k, "format_") {
			fk[k] = v
		}
	}
	ev.Coverage["fault_kinds"] = fk
	ev.Coverage["simulated_time"] = map[string]any{"read_calls": st["reads"]}
	ev.Coverage["components"] = map[string]string{
		"real":      "gojq command (flag parser, input iterators, stream parser, error formatter), encoding/json, lexer/parser, regular files in a scratch directory",
		"simulated": "stdin (delivery schedule, truncation), stdout, stderr",
		"absent":    "clock, network",
	}
	ev.Assumptions = []string{
		"go-runewidth (a dependency of gojq) is trusted for terminal column widths",
		"tabs are not generated (their terminal width is not defined by the property)",
		"for end-of-input errors after a final terminator both the terminated line and the following empty line are accepted",
	}
}
