package c17

import (
	"fmt"
	"strings"

	"verif/sim/kernel"
)

// TextSpec describes a well-formed multi-line, multi-document JSON text. The
// text is a pure function of the spec (Raw, when set by the shrinker,
// overrides generation).
type TextSpec struct {
	Seed   uint64 `json:"seed"`
	Docs   int    `json:"docs"`           // number of documents
	Bytes  int    `json:"bytes"`          // approximate total size
	Big    int    `json:"big,omitempty"`  // index of one document that takes most of the bytes (-1/absent: evenly)
	Term   string `json:"term"`           // "\n", "\r\n", "\r"
	Indent int    `json:"indent"`         // 0 = one line per document
	Wide   bool   `json:"wide,omitempty"` // multi-byte, double-width and combining characters in strings
	Long   bool   `json:"long,omitempty"` // some lines far longer than an excerpt
	Tiny   bool   `json:"tiny,omitempty"` // one tiny document per line (tens of thousands of lines)
	Raw    string `json:"raw,omitempty"`  // explicit text (minimised cases)
	HasRaw bool   `json:"has_raw,omitempty"`
}

var asciiWords = []string{"alpha", "beta", "gamma", "delta", "key", "value", "lorem ipsum", "x", "0123456789", "a/b", "q w e r t y"}
var wideWords = []string{"héllo", "日本語のテキスト", "emoji 😀 here", "é combining", "ＡＢＣ fullwidth", "mixé 漢字 ok", "ßüö", "한국어", "→ arrow"}

type textGen struct {
	r    *kernel.Rand
	spec *TextSpec
	sb   strings.Builder
	uniq int
}

func (g *textGen) str() string {
	r := g.r
	var w string
	if g.spec.Wide && r.Bool(0.5) {
		w = kernel.Pick(r, wideWords)
	} else {
		w = kernel.Pick(r, asciiWords)
	}
	g.uniq++
	s := fmt.Sprintf("%s%d", w, g.uniq)
	if g.spec.Long && r.Bool(0.15) {
		n := r.Range(60, 400)
		var sb strings.Builder
		for sb.Len() < n {
			if g.spec.Wide && r.Bool(0.3) {
				sb.WriteString(kernel.Pick(r, wideWords))
			} else {
				sb.WriteString(kernel.Pick(r, asciiWords))
			}
			g.uniq++
			fmt.Fprintf(&sb, "%d ", g.uniq)
		}
		s = sb.String()
	}
	if r.Bool(0.1) {
		s += `\n\t\"esc\\` // escapes (as JSON escape sequences)
	}
	if r.Bool(0.05) {
		s += `é😀`
	}
	return `"` + s + `"`
}

func (g *textGen) scalar() string {
	r := g.r
	switch r.Weighted([]int{4, 3, 1, 1, 1}) {
	case 0:
		return g.str()
	case 1:
		g.uniq++
		return fmt.Sprintf(kernel.Pick(r, []string{"%d", "-%d", "%d.5", "%de3", "1.%d"}), g.uniq)
	case 2:
		return "null"
	case 3:
		return "true"
	default:
		return "false"
	}
}

func (g *textGen) nl(depth int) {
	if g.spec.Indent > 0 {
		g.sb.WriteString(g.spec.Term)
		g.sb.WriteString(strings.Repeat(" ", g.spec.Indent*depth))
	}
}

// value writes a value of roughly budget bytes.
func (g *textGen) value(budget, depth int) {
	r := g.r
	if budget < 24 || depth > 6 {
		g.sb.WriteString(g.scalar())
		return
	}
	start := g.sb.Len()
	if r.Bool(0.5) {
		g.sb.WriteString("[")
		n := 0
		for g.sb.Len()-start < budget {
			if n > 0 {
				g.sb.WriteString(",")
				if g.spec.Indent == 0 && r.Bool(0.3) {
					g.sb.WriteString(" ")
				}
			}
			g.nl(depth + 1)
			g.value(min(budget/2, r.Range(8, 200)), depth+1)
			n++
		}
		if n > 0 {
			g.nl(depth)
		}
		g.sb.WriteString("]")
		return
	}
	g.sb.WriteString("{")
	n := 0
	for g.sb.Len()-start < budget {
		if n > 0 {
			g.sb.WriteString(",")
		}
		g.nl(depth + 1)
		g.sb.WriteString(g.str())
		g.sb.WriteString(":")
		if g.spec.Indent > 0 || r.Bool(0.3) {
			g.sb.WriteString(" ")
		}
		g.value(min(budget/2, r.Range(8, 200)), depth+1)
		n++
	}
	if n > 0 {
		g.nl(depth)
	}
	g.sb.WriteString("}")
}

// Build returns the text and the byte offset at which each document starts.
func (s *TextSpec) Build() (string, []int) {
	if s.HasRaw {
		return s.Raw, nil
	}
	g := &textGen{r: kernel.NewRand(kernel.Mix(s.Seed, 17)), spec: s}
	var starts []int
	if s.Tiny {
		for g.sb.Len() < s.Bytes {
			if g.sb.Len()%4096 < 4 {
				starts = append(starts, g.sb.Len())
			}
			g.sb.WriteString(kernel.Pick(g.r, []string{"1", "[]", "{}", "23", `"a"`, "null"}))
			g.sb.WriteString(s.Term)
		}
		return g.sb.String(), starts
	}
	docs := max(1, s.Docs)
	for d := 0; d < docs; d++ {
		budget := s.Bytes / docs
		if s.Big >= 0 && s.Big < docs && docs > 1 {
			if d == s.Big {
				budget = s.Bytes * 3 / 4
			} else {
				budget = s.Bytes / 4 / (docs - 1)
			}
		}
		starts = append(starts, g.sb.Len())
		g.value(budget, 0)
		// separation between documents: a terminator, sometimes extra blank lines or spaces
		switch g.r.Weighted([]int{6, 2, 1}) {
		case 0:
			g.sb.WriteString(s.Term)
		case 1:
			g.sb.WriteString(s.Term + s.Term)
		default:
			g.sb.WriteString(" " + s.Term)
		}
	}
	return g.sb.String(), starts
}

// inString marks, for every byte of a well-formed JSON text, whether an
// insertion before that byte lands inside a string literal (after its opening
// quote and not after its closing one), and whether the byte is at a rune and
// escape boundary.
func inStringMap(t string) (inside, boundary []bool) {
	inside = make([]bool, len(t)+1)
	boundary = make([]bool, len(t)+1)
	in := false
	for i := 0; i < len(t); {
		c := t[i]
		inside[i] = in
		boundary[i] = true
		if !in {
			if c == '"' {
				in = true
			}
			i++
			continue
		}
		switch {
		case c == '"':
			in = false
			i++
		case c == '\\':
			n := 2
			if i+1 < len(t) && t[i+1] == 'u' {
				n = 6
			}
			for k := 1; k < n && i+k < len(t); k++ {
				inside[i+k] = true
			}
			i += n
		case c >= 0x80:
			n := 1
			for i+n < len(t) && t[i+n]&0xC0 == 0x80 {
				inside[i+n] = true
				n++
			}
			i += n
		default:
			i++
		}
	}
	boundary[len(t)] = true
	return
}
