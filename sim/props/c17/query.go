package c17

import (
	"strings"

	"verif/sim/kernel"
)

// QuerySpec is a well-formed query generated as a token list, so that token
// boundaries are known without trusting the lexer under test.
type QuerySpec struct {
	Tokens []string `json:"tokens"`
	Seps   []string `json:"seps"` // separator after each token
	// AfterTerm[i]: a complete term ends with token i (a misplaced literal
	// inserted after it cannot continue any production).
	AfterTerm  []bool `json:"after_term"`
	TokenFault bool   `json:"token_fault"`
}

func (q QuerySpec) Text() string {
	var sb strings.Builder
	for i, t := range q.Tokens {
		sb.WriteString(t)
		sb.WriteString(q.Seps[i])
	}
	return sb.String()
}

// boundaries returns the byte offset of the start of every token, plus the end.
func (q QuerySpec) boundaries() []int {
	var bs []int
	p := 0
	for i, t := range q.Tokens {
		bs = append(bs, p)
		p += len(t) + len(q.Seps[i])
	}
	return append(bs, p)
}

type qgen struct {
	r     *kernel.Rand
	toks  []string
	after []bool
	multi bool
	wide  bool
}

func (g *qgen) emit(t string, afterTerm bool) {
	g.toks = append(g.toks, t)
	g.after = append(g.after, afterTerm)
}

var qFields = []string{".a", ".foo", ".bar_baz", ".x1"}

func (g *qgen) str() string {
	if g.wide && g.r.Bool(0.5) {
		return kernel.Pick(g.r, []string{`"日本語"`, `"héllo wörld"`, `"😀 ok"`, `"ＡＢ"`, `"é"`})
	}
	return kernel.Pick(g.r, []string{`"s"`, `"hello world"`, `""`, `"a\nb"`, `"q\"r"`})
}

func (g *qgen) term(depth int) {
	r := g.r
	switch r.Weighted([]int{6, 3, 3, 3, 2, 2, 2, 2, 2, 1}) {
	case 0:
		g.emit(kernel.Pick(r, qFields), true)
	case 1:
		g.emit(kernel.Pick(r, []string{"1", "23", "4.5", "100"}), true)
	case 2:
		g.emit(g.str(), true)
	case 3:
		g.emit(".", false) // `. "s"` is an index expression, not a misplaced literal
	case 4:
		if depth <= 0 {
			g.emit("null", true)
			return
		}
		g.emit("[", false)
		g.pipe(depth - 1)
		g.emit("]", true)
	case 5:
		if depth <= 0 {
			g.emit("true", true)
			return
		}
		g.emit("(", false)
		g.pipe(depth - 1)
		g.emit(")", true)
	case 6:
		if depth <= 0 {
			g.emit("{}", true)
			return
		}
		g.emit("{", false)
		g.emit(kernel.Pick(r, []string{"a", "b", `"k"`}), false)
		g.emit(":", false)
		g.term(depth - 1)
		g.emit("}", true)
	case 7:
		if depth <= 0 {
			g.emit("empty", true)
			return
		}
		g.emit("if", false)
		g.pipe(depth - 1)
		g.emit("then", false)
		g.pipe(depth - 1)
		g.emit("else", false)
		g.pipe(depth - 1)
		g.emit("end", true)
	case 8:
		// interpolated string as separate lexical pieces
		g.emit(kernel.Pick(r, []string{`"x\(`, `"\(`, `"日本\(`}), false)
		g.pipe(0)
		g.emit(kernel.Pick(r, []string{`)"`, `) y"`, `)é"`}), true)
	default:
		t := kernel.Pick(r, []string{"length", "keys", "not", "empty", "$__loc__", "..", "@base64", "input_line_number"})
		g.emit(t, t != "@base64") // `@base64 "s"` is a format string
	}
}

func (g *qgen) pipe(depth int) {
	g.term(depth)
	cmp := false // comparison operators do not associate
	for n := g.r.Range(0, 2); n > 0; n-- {
		op := kernel.Pick(g.r, []string{"|", "|", ",", "+", "-", "*", "//", "==", "<", "and", "or"})
		if op == "==" || op == "<" {
			if cmp {
				op = "|"
			}
			cmp = true
		}
		if op == "|" || op == "," || op == "and" || op == "or" || op == "//" {
			cmp = false
		}
		g.emit(op, false)
		g.term(depth)
	}
}

func genQuerySpec(r *kernel.Rand) QuerySpec {
	g := &qgen{r: r, multi: r.Bool(0.5), wide: r.Bool(0.5)}
	if r.Bool(0.2) {
		g.emit("def", false)
		g.emit("f", false)
		g.emit(":", false)
		g.pipe(1)
		g.emit(";", false)
	}
	g.pipe(r.Range(1, 3))
	q := QuerySpec{Tokens: g.toks, AfterTerm: g.after}
	term := kernel.Pick(r, []string{"\n", "\n", "\r\n", "\r"})
	for range g.toks {
		sep := " "
		if g.multi {
			switch r.Weighted([]int{5, 3, 1, 1}) {
			case 1:
				sep = term
			case 2:
				sep = " # comment" + term
			case 3:
				sep = term + "  "
			}
		} else if r.Bool(0.2) {
			sep = "  "
		}
		q.Seps = append(q.Seps, sep)
	}
	// a trailing separator would be trimmed by the command (strings.TrimSpace on the argument)
	q.Seps[len(q.Seps)-1] = ""
	return q
}

var alwaysInvalid = []string{"&", "^", "`", "~", "あ", "😀", "&", "^", "@", "★", "\x01", "'"}

// corruptionAt builds a corruption at token boundary p (byte offset).
func (q *QuerySpec) corruptionAt(r *kernel.Rand, p int) Corruption {
	bs := q.boundaries()
	idx := -1
	for i, b := range bs {
		if b == p {
			idx = i
		}
	}
	q.TokenFault = true
	end := idx == len(bs)-1
	pre := ""
	if end {
		pre = " "
	}
	// after a complete term a misplaced literal is at fault itself
	if idx > 0 && q.AfterTerm[idx-1] && r.Bool(0.4) {
		lit := kernel.Pick(r, []string{`1`, `"s"`, `"s\(1)"`, `"\(.)"`, `$v`, `"日本\(1)x"`, `@base64`, `@json "x"`, `1.5e3`, `.5`, `$__loc__`, `..`, `if`, `reduce`, `try`, `def`, `label`, `foreach`, `"日本語"`, `100000000000000000000`, `$ENV`, `1.2.3`, `1e5`, `@text`, `$__prog_args`, `"a\tb"`, `"\u00e9x"`, `.5e1`})
		return Corruption{Kind: "insert", Pos: p, Bytes: pre + lit + " ", Off: len(pre)}
	}
	if end && r.Bool(0.3) {
		q.TokenFault = false
		return Corruption{Kind: "insert", Pos: p, Bytes: ` "unterminated`, Off: 14} // offending position: end of input
	}
	tok := kernel.Pick(r, alwaysInvalid)
	return Corruption{Kind: "insert", Pos: p, Bytes: pre + tok + " ", Off: len(pre)}
}

// escapeCorruptions: an invalid escape sequence inserted inside a string literal of the query; the
// token at fault starts at the backslash. The character after the backslash may be multi-byte.
func (q *QuerySpec) escapeCorruptions(r *kernel.Rand) []Corruption {
	var cs []Corruption
	bs := q.boundaries()
	for i, t := range q.Tokens {
		// the literal part of a string token: after the opening quote or the closing parenthesis of an interpolation
		var from int
		switch {
		case strings.HasPrefix(t, `"`):
			from = 1
		case strings.HasPrefix(t, `)`) && strings.HasSuffix(t, `"`):
			from = 1
		default:
			continue
		}
		to := len(t)
		if strings.HasSuffix(t, `"`) {
			to = len(t) - 1
		} else if strings.HasSuffix(t, `\(`) {
			to = len(t) - 2
		}
		for p := from; p <= to; p++ {
			if p < len(t) && t[p]&0xC0 == 0x80 { // inside a multi-byte character
				continue
			}
			if p > 0 && t[p-1] == '\\' { // would change an existing escape
				continue
			}
			if p >= 2 && t[p-2] == '\\' && t[p-1] != '\\' { // right after an escape like \n is fine, \( is not
				if t[p-1] == '(' {
					continue
				}
			}
			esc := kernel.Pick(r, []string{`\q`, `\q`, `\★`, `\あ`, `\😀`, `\é`, `\ `, `\x`, `\'`})
			cs = append(cs, Corruption{Kind: "insert", Pos: bs[i] + p, Bytes: esc, Off: 0})
		}
	}
	return cs
}

// tokenCatalogue: one or more tokens of every lexical kind, for arbitrary mutations.
var tokenCatalogue = []string{
	".", "..", ".a", ".foo_bar", "$x", "$__loc__", "$m::v", "f", "f::g", `"s"`, `"é日本"`, `"s\(1)t"`, `"\(.)"`, "1", "1.5", ".5", "1e3", "100000000000000000000", "@base64", `@json "x\(.)"`,
	"def", "if", "then", "elif", "else", "end", "as", "reduce", "foreach", "try", "catch", "label", "break", "import", "include", "and", "or", "not", "null", "true", "false", "module", "__loc__",
	"|", ",", "//", "+", "-", "*", "/", "%", "=", "|=", "+=", "-=", "*=", "/=", "%=", "//=", "==", "!=", "<", "<=", ">", ">=", "?", "?//", ":", ";", "(", ")", "[", "]", "{", "}", ".[", ".[]", "?//", "..?",
	"\xff", "\xc2", "\xe2\x82", "\xf0\x9f", "\x80", "a\xffb", "$\xc3", ".\xe6\x97", "\"\xe2\x82\"",
	"&", "^", "あ", "😀", "@", "#c", "$", "$$", "1.2.3", "0x1", "\"", "'", "\\", "!", "~", "`", "def .:", "label .", ". as .", "{.}", "{a:1, .}", ". . .", "reduce . as .", "$__prog_args", "as [$a, .]", "::", "f::", "..a", ".. .", ".\"a\"", ".[\"a\"]?",
}
