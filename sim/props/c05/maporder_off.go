//go:build !maporder

package c05

// The standard build runs on Go's own (randomised) map iteration order.

func setMapMode(int) {}

func executeModes(d *Data) (*violation, *stats) { return execute(d) }

func mapOrderEvidence(st map[string]int64) any {
	return map[string]any{"build": "standard: Go's own randomised map iteration order; the permutation seam runs in the map-order build (./check C05 runs both)"}
}
