//go:build !maporder

package c05

// The standard build runs on Go's own (randomised) map iteration order.

func setMapMode(int) {}

func executeModes(d *Data) (*violation, *stats) { return execute(d) }
