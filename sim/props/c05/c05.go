// Package c05 decides C05 (runs are isolated) by seeded histories: one caller
// goroutine holds several compiled queries, several input objects, several
// live iterators and every value those iterators have emitted, and interleaves
// start / advance / abandon operations, feeding emitted values back as inputs
// of later runs while their producers are still live.
package c05

import (
	"fmt"
	"os"
	"strings"

	"github.com/itchyny/gojq"

	"verif/sim/kernel"
	"verif/sim/seams/simctx"
	"verif/sim/workload"
)

const ID = "C05"

type Prop struct{}

func (Prop) ID() string    { return ID }
func (Prop) Level() string { return "exploration" }

// Children run the map-order variant of the harness when ./check could build it.
func (Prop) Binary(vdir string) string                                     { return os.Getenv("VERIF_C05_BIN") }
func (Prop) ChildEnv(string) []string                                      { return nil }
func (Prop) PostChild(int, string, *kernel.Case, string) *kernel.Violation { return nil }

type ProgSpec struct {
	Src      string             `json:"src"`
	VarNames []string           `json:"var_names,omitempty"`
	VarVals  []kernel.ValueSpec `json:"var_vals,omitempty"`
}

// Op is one step of a history.
type Op struct {
	Kind string `json:"kind"`          // start | advance | abandon
	Run  int    `json:"run"`           // run slot
	Code int    `json:"code"`          // start: which compiled query
	Src  string `json:"src,omitempty"` // start: input | copy | emitted
	Idx  int    `json:"idx,omitempty"` // start: which input / which emitted value
	N    int    `json:"n,omitempty"`   // advance: how many Next calls
}

type Data struct {
	Progs  []ProgSpec         `json:"progs"`
	Inputs []kernel.ValueSpec `json:"inputs"`
	Ops    []Op               `json:"ops"`
	Budget int                `json:"budget"`
	Origin string             `json:"origin,omitempty"`
	// MapMode is only meaningful in the map-order build: how every map range is permuted.
	MapMode int `json:"map_mode,omitempty"`
}

type tiers struct{ Histories, Budget, MaxOps int }

func tier(t string) tiers {
	if t == "thorough" {
		return tiers{Histories: 1200000, Budget: 3000, MaxOps: 40}
	}
	return tiers{Histories: 50000, Budget: 1500, MaxOps: 30}
}

const unitSize = 100

func (Prop) Units(t string, seed uint64) int {
	return tier(t).Histories/unitSize + systematicUnits(seed)
}

// ---- workload ---------------------------------------------------------------------

// mutators: every native that copies or might not.
var mutators = []struct{ Src, In string }{
	{`setpath(["a","b"]; 1)`, objShared}, {`setpath(["k",0]; 9)`, objShared}, {`delpaths([["a","q"],["k",0]])`, objShared}, {`del(.a.q)`, objShared}, {`del(.k[0], .k[1])`, objShared},
	{`del(.a.b[0])`, objShared}, {`del(..|.c?)`, objShared}, {`.a.b[1] = 10`, objShared}, {`.a.q.r |= . + 1`, objShared}, {`.k[] += 1`, objShared}, {`.k |= sort`, objShared},
	{`.k += [4]`, objShared}, {`.k + [4] | .[0] = 7`, objShared}, {`.a * {"q":{"t":2}}`, objShared}, {`.a + .z`, objShared}, {`. * {a:{b:1}}`, objShared}, {`.k - [1]`, objShared},
	{`add`, `[[1],[2,3],[4]]`}, {`add`, `[{"a":[1]},{"b":2},{"a":[3]}]`}, {`add(.[] | .[0:1])`, `[[1,2],[3,4]]`}, {`add | .[0] = 9`, `[[1,2],[3]]`}, {`add | .a = 9`, `[{"a":1},{"b":2}]`},
	{`sort`, numsShared}, {`sort | .[0] = 99`, numsShared}, {`sort_by(.k)`, objsShared}, {`sort_by(.k) | .[0].v = 1`, objsShared}, {`group_by(.k)`, objsShared}, {`group_by(.k) | .[0][0].z = 1`, objsShared},
	{`unique_by(.k)`, objsShared}, {`unique`, numsShared}, {`reverse`, numsShared}, {`reverse | .[0] = 99`, numsShared}, {`flatten`, `[3,[1,[2]],[[2,1]]]`}, {`flatten | .[0] = 99`, `[3,[1,[2]],[[2,1]]]`},
	{`.[1:3]`, numsShared}, {`.[1:3] | .[0] = 99`, numsShared}, {`.[2:] + .[:2]`, numsShared}, {`.[1:3] = ["x"]`, numsShared}, {`.[1:3] |= map(. + 1)`, numsShared}, {`del(.[1:3])`, numsShared},
	{`.[:2] + [99]`, numsShared}, {`.[:2] | . + [99] | ., length`, numsShared}, {`(.[:2] | . += [99]), .`, numsShared}, {`[.[:2], .[1:]] | .[0] += [0] | .`, numsShared},
	{`to_entries`, objShared}, {`to_entries | .[0].value = 1`, objShared}, {`with_entries(.value |= tostring)`, `{"a":1,"b":[1]}`}, {`map_values(.)`, objShared}, {`map_values(. as $x | [$x])`, objShared},
	{`walk(.)`, objShared}, {`walk(if type == "array" then sort else . end)`, `[3,[2,1],{"a":[9,8]}]`}, {`[tostream] | fromstream(.[])`, objShared}, {`tostream`, objShared}, {`[limit(3; .[])]`, numsShared},
	{`first(.[]), last(.[])`, objsShared}, {`first(.[]) | .v = 1`, objsShared}, {`.[] | .v = 1`, objsShared}, {`.[0] | .z = 1 | .`, objsShared}, {`.[0], (.[0] | .new = 1), .[0]`, objsShared},
	{`foreach .[] as $x ([]; . + [$x])`, numsShared}, {`foreach .[] as $x ([]; . + [$x]; .)`, numsShared}, {`reduce .[] as $x ([]; . + [$x])`, numsShared}, {`reduce .[] as $x ({}; .[$x|tostring] = $x)`, numsShared},
	{`[foreach .[] as $x ([]; . + [$x])] | .[0] += [7] | .`, numsShared}, {`foreach .[] as $x ({}; .[$x|tostring] = $x)`, `[1,2,3]`}, {`[.[] as $x | {a: $x}] | .[0].b = 1`, numsShared},
	{`. as $x | [$x, $x] | .[0].a = 1`, objShared}, {`. as $x | [$x.k, $x.k] | .[0][0] = 9 | ., $x.k`, objShared}, {`[., .] | .[0].k[0] = 9 | .[1].k`, objShared}, {`{a: ., b: .} | .a.k += [1] | .b.k`, objShared},
	{`getpath(["a","r"]) as $r | .a.r.s += [3] | $r`, objShared}, {`.a.r as $r | del(.a.r.s[0]) | $r, .`, objShared}, {`[.k, .k] | add`, objShared}, {`[.k[]] | .[0] = 9`, objShared},
	{`.. |= .`, objShared}, {`.. |= (if type == "number" then . + 1 else . end)`, objShared}, {`[paths] | length`, objShared}, {`[..] | length`, objShared}, {`keys, (to_entries | map(.key))`, objShared},
	{`tojson`, objShared}, {`tojson | fromjson`, objShared}, {`[.[] | tostring]`, numsShared}, {`@json, @text`, objShared}, {`transpose`, `[[1,2],[3]]`}, {`combinations`, `[[1,2],[3,4]]`},
	{`pick(.a.b[1], .k)`, objShared}, {`to_entries | from_entries`, objShared}, {`with_entries(select(.value != null))`, objShared}, {`del(.[] | select(. > 4))`, numsShared}, {`(.[] | select(. > 4)) |= empty`, numsShared},
	{`.[] |= (., .)`, numsShared}, {`.[] |= empty`, numsShared}, {`(.a, .b) = 1`, `{"a":0,"b":{"c":1}}`}, {`.a = .b`, `{"a":0,"b":{"c":[1]}}`}, {`.a = .b | .a.c += [2] | .b`, `{"a":0,"b":{"c":[1]}}`},
	{`.a |= (.b = 1)`, `{"a":{"c":[1]}}`}, {`.a.c as $c | .a.c += [2] | $c`, `{"a":{"c":[1]}}`}, {`input_line_number, ., .`, objShared}, {`[., .] | tojson`, objShared},
	{`$v | del(.a.q), .a`, `null`}, {`$v.a.r.s += [3] | ., $v`, `null`}, {`. as $in | $v | .a.q = $in`, `{"z":[1]}`}, {`$v.k | sort | .[0] = 9`, `null`}, {`[$v, $v] | .[0].k += [1] | .[1]`, `null`},
	{`{"x":[1,{"y":[2]}]} as $c | $c.x[1].y[0] = 3 | ., $c`, `null`}, {`[1,[2,[3]]] as $c | ($c | flatten), ($c | .[1][1][0] = 9), $c`, `null`}, {`{"a":{"q":1,"r":{"s":{"t":1}}}} | del(.a.q), .`, `null`},
	{`[3,1,2] | sort, .`, `null`}, {`[[1],[2]] | add, .`, `null`}, {`{"a":[1]} | .a += [2], .`, `null`}, {`def c: {"x": [1, 2]}; (c | .x[0] = 9), c, (c | .x += [3]), c`, `null`}, {`def c: [1, [2, 3]]; (c | .[1] |= reverse), c, (c | add), c`, `null`},
}

// containers beyond the small-size thresholds (Go map buckets, slice growth steps)
var (
	bigArr = func() string {
		xs := make([]string, 40)
		for i := range xs {
			xs[i] = fmt.Sprint((i * 37) % 41)
		}
		return "[" + strings.Join(xs, ",") + "]"
	}()
	bigObj = func() string {
		xs := make([]string, 14)
		for i := range xs {
			xs[i] = fmt.Sprintf("%q:[%d,{\"z\":%d}]", string(rune('n'-i))+"k", i, i)
		}
		return "{" + strings.Join(xs, ",") + "}"
	}()
)

func init() {
	for _, a := range workload.Aliasing {
		mutators = append(mutators, struct{ Src, In string }{a.Src, a.In})
	}
	for _, a := range workload.BigNumbers {
		mutators = append(mutators, struct{ Src, In string }{a.Src, a.In})
	}
	for _, a := range workload.Chains {
		mutators = append(mutators, struct{ Src, In string }{a.Src, a.In})
	}
	// argument-keyed caches inside a *Code (compiled regular expressions): expressions and flags
	// taken from data, valid and invalid ones that a cache key might confuse, in an order where a
	// failing call comes before and after a succeeding look-alike
	flagsIn := `["x","gx",null,"x","g","gx","i","xi","ix","n","gn","xn","nx","l","s","sx","xs","","ii","gg","x"]`
	resIn := `["a","(","a","[","[a]","(?i)a","a","(","a+","a++","\\","\\d","(?<n>a)","(?<n>a","(?<n>a)"]`
	for _, f := range []string{`test("an"; $f)`, `[match("an"; $f)] | length`, `capture("(?<x>a)"; $f)`, `[scan("a"; $f)]`, `split("a"; $f)`, `[splits("a"; $f)]`, `sub("a"; "b"; $f)`, `gsub("a"; "b"; $f)`, `test(["an", $f])`, `[match(["a", $f])] | length`} {
		mutators = append(mutators, struct{ Src, In string }{`[.[] as $f | try ("banana" | ` + f + `) catch "E"]`, flagsIn})
		mutators = append(mutators, struct{ Src, In string }{`.[] as $f | try ("bAnana" | ` + f + `) catch .`, flagsIn})
	}
	for _, f := range []string{`test($f)`, `[match($f; "g")] | length`, `[scan($f)]`, `split($f; null)`, `sub($f; "b")`, `gsub($f; "b"; "x")?`, `capture($f)`, `test($f; "x")`, `test($f; "i")`} {
		mutators = append(mutators, struct{ Src, In string }{`[.[] as $f | try ("banana" | ` + f + `) catch "E"]`, resIn})
		mutators = append(mutators, struct{ Src, In string }{`.[] as $f | try ("banana" | ` + f + `) catch .`, resIn})
	}
	for _, src := range []string{`sort`, `reverse`, `unique`, `.[3:20]`, `.[3:20] | .[0] = 99`, `.[:5] + [0]`, `(.[:5] | . + [1,2]), .`, `[.[:5], .[30:]] | add`, `.[10:] = [1]`, `del(.[5:30])`, `map(. + 1)`, `group_by(. % 3)`, `.[] |= . + 1`, `[limit(20; .[])]`, `to_entries | map(.value)`, `[.[] | select(. > 20)]`, `.[39] = 1, .[40] = 1, .[45] = 1`, `.[:40] | .[40] = 1`, `flatten`, `tojson | fromjson`, `min, max, add`, `[.[1:], .[:1]] | add | length`} {
		mutators = append(mutators, struct{ Src, In string }{src, bigArr})
	}
	for _, src := range []string{`keys`, `to_entries`, `with_entries(.value |= .[0])`, `map_values(.[1])`, `del(.ak, .bk)`, `.nk[1].z = 99`, `. + {"new": 1}`, `. * {"nk": {"q": 1}}`, `[.[]] | length`, `tojson`, `[paths] | length`, `del(.[] | select(.[0] > 5))`, `to_entries | from_entries`, `.. |= .`, `[.[] | .[1]] | add`, `walk(.)`, `pick(.nk, .ak)`, `tostream`, `add`, `keys_unsorted | sort`, `[to_entries[] | .key] | join(",")`} {
		mutators = append(mutators, struct{ Src, In string }{src, bigObj})
	}
}

const (
	objShared  = `{"a":{"b":[1,2,{"c":3}],"q":{"r":1,"s":[]},"r":{"s":[1,2]},"x":{"b":5}},"k":[3,1,2],"s":"héllo","n":null,"z":{"y":{"x":{"w":[]}}}}`
	numsShared = `[5,3,8,1,9,2,7,4,6,0]`
	objsShared = `[{"k":2,"v":[1]},{"k":1,"v":[2]},{"k":2,"v":[0]},{"k":3,"v":{"z":[1]}}]`
)

var sharedVar = kernel.ValueSpec{JSON: `{"a":{"q":1,"r":{"s":[1,2]},"t":{"u":{}}},"b":[1,{"c":2}],"k":[3,1,2]}`, Spare: 2}

type poolItem struct {
	p  ProgSpec
	in kernel.ValueSpec
}

var pool []poolItem
var nMutators int // pool[:nMutators] are the directed programs (mutators and big-operand family)

func getPool() []poolItem {
	if pool != nil {
		return pool
	}
	for _, m := range mutators {
		ps := ProgSpec{Src: m.Src}
		if strings.Contains(m.Src, "$v") {
			ps.VarNames, ps.VarVals = []string{"$v"}, []kernel.ValueSpec{sharedVar}
		}
		pool = append(pool, poolItem{ps, kernel.ValueSpec{JSON: m.In}})
	}
	nMutators = len(pool)
	for _, b := range workload.BigOperands {
		ps := ProgSpec{Src: b.Src, VarNames: workload.BigVarNames, VarVals: []kernel.ValueSpec{{JSON: workload.BigVarVals[0], Spare: 3}, {JSON: workload.BigVarVals[1]}}}
		pool = append(pool, poolItem{ps, kernel.ValueSpec{JSON: b.In}})
	}
	nMutators = len(pool)
	for _, f := range workload.Finite {
		if workload.Deterministic(f.Src) {
			pool = append(pool, poolItem{ProgSpec{Src: f.Src}, kernel.ValueSpec{JSON: f.In}})
		}
	}
	corpus, _ := workload.Corpus()
	for _, p := range corpus {
		if !workload.Deterministic(p.Src) || !workload.Tame(p.Src) || len(p.Inputs) == 0 {
			continue
		}
		pool = append(pool, poolItem{ProgSpec{Src: p.Src, VarNames: p.VarNames, VarVals: p.VarVals}, p.Inputs[0]})
	}
	return pool
}

func systematicUnits(seed uint64) int { return (len(getPool()) + 9) / 10 }

// genHistory draws one history (swarm style: its own operation mix).
func genHistory(seed uint64, idx int, tr tiers) Data {
	r := kernel.NewRand(kernel.Mix(seed, 5, 1, uint64(idx)))
	pl := getPool()
	var d Data
	d.Budget = tr.Budget
	g := workload.NewGen(r.Uint64())
	g.Bias = "mut"
	ncode := r.Weighted([]int{0, 5, 3, 2})
	for i := 0; i < ncode; i++ {
		var it poolItem
		switch r.Weighted([]int{5, 3, 3, 2}) {
		case 0:
			it = pl[r.Intn(nMutators)]
		case 1:
			it = pl[r.Intn(len(pl))]
		case 3:
			it = pl[r.Intn(len(pl))]
			if m := workload.MutateProgram(r, it.p.Src); workload.Deterministic(m) && workload.Tame(m) {
				it.p.Src = m
			}
		default:
			src, in := g.Program()
			it = poolItem{ProgSpec{Src: src}, in}
		}
		d.Progs = append(d.Progs, it.p)
		if i == 0 || r.Bool(0.4) {
			d.Inputs = append(d.Inputs, it.in)
		}
	}
	for i := range d.Inputs {
		if r.Bool(0.5) {
			d.Inputs[i].Spare = r.Range(1, 4)
		}
		if r.Bool(0.4) {
			d.Inputs[i].Alias = true
		}
	}
	nops := r.Range(3, tr.MaxOps)
	pStart, pFeed, pAbandon := r.Float()*0.4+0.1, r.Float()*0.7, r.Float()*0.15
	live := map[int]bool{}
	emittedGuess := 0
	for len(d.Ops) < nops {
		if len(live) == 0 || (len(live) < 4 && r.Bool(pStart)) {
			slot := 0
			for live[slot] {
				slot++
			}
			op := Op{Kind: "start", Run: slot, Code: r.Intn(len(d.Progs)), Src: "input", Idx: r.Intn(len(d.Inputs))}
			if emittedGuess > 0 && r.Bool(pFeed) {
				op.Src, op.Idx = "emitted", r.Intn(emittedGuess)
			} else if r.Bool(0.25) {
				op.Src = "copy"
			}
			d.Ops = append(d.Ops, op)
			live[slot] = true
			continue
		}
		var slots []int
		for s := 0; s < 4; s++ {
			if live[s] {
				slots = append(slots, s)
			}
		}
		s := kernel.Pick(r, slots)
		if r.Bool(pAbandon) {
			d.Ops = append(d.Ops, Op{Kind: "abandon", Run: s})
			delete(live, s)
			continue
		}
		n := kernel.Pick(r, []int{1, 1, 1, 2, 3, 8})
		d.Ops = append(d.Ops, Op{Kind: "advance", Run: s, N: n})
		emittedGuess += n
	}
	d.Origin = "seeded"
	return d
}

// systematicHistory: one pool program as two live iterators over one input object advanced
// alternately, every emitted value fed back into a third run.
func systematicHistory(idx int, tr tiers) Data {
	it := getPool()[idx]
	in := it.in
	in.Spare = 2
	d := Data{Progs: []ProgSpec{it.p}, Inputs: []kernel.ValueSpec{in}, Budget: tr.Budget, Origin: "systematic"}
	d.Ops = append(d.Ops, Op{Kind: "start", Run: 0, Src: "input"}, Op{Kind: "start", Run: 1, Src: "input"})
	for k := 0; k < 6; k++ {
		d.Ops = append(d.Ops, Op{Kind: "advance", Run: 0, N: 1}, Op{Kind: "advance", Run: 1, N: 1},
			Op{Kind: "start", Run: 2, Src: "emitted", Idx: 2 * k}, Op{Kind: "advance", Run: 2, N: 2}, Op{Kind: "abandon", Run: 2})
	}
	return d
}

// ---- execution ------------------------------------------------------------------------

type out struct {
	enc     string
	marshal string
	end     bool
}

type emitted struct {
	val     any
	fp      string
	marshal string
	by      int
}

type liveRun struct {
	it   gojq.Iter
	iso  []out
	pos  int
	code int
	in   any
	ctx  *simctx.Ctx
	done bool
}

func compileProg(p ProgSpec) (*gojq.Code, error) {
	q, err := gojq.Parse(p.Src)
	if err != nil {
		return nil, err
	}
	var opts []gojq.CompilerOption
	if len(p.VarNames) > 0 {
		opts = append(opts, gojq.WithVariables(p.VarNames))
	}
	return gojq.Compile(q, opts...)
}

func marshal(v any) string {
	if _, isErr := v.(error); isErr {
		return ""
	}
	bs, err := gojq.Marshal(v)
	if err != nil {
		return "<marshal error: " + err.Error() + ">"
	}
	return string(bs)
}

// marshalBounded: serialising a value whose tree form is astronomically large (shared sub-values)
// would never end; such values are compared by their bounded encoding only.
func marshalBounded(v any, enc string) string {
	if kernel.TooBig(enc) {
		return "<not serialised: too big>"
	}
	return marshal(v)
}

const maxOut = 60

// drainAll runs an iterator to completion (or the caps) recording each output at emission.
func drainAll(it gojq.Iter, ctx *simctx.Ctx) (outs []out, vals []any, panicked string) {
	defer func() {
		if r := recover(); r != nil {
			panicked = fmt.Sprint(r)
		}
	}()
	for len(outs) < maxOut {
		v, ok := it.Next()
		if !ok {
			outs = append(outs, out{end: true})
			return
		}
		if _, isErr := v.(error); isErr && ctx.Closed {
			outs = append(outs, out{enc: "<step cap>", end: true})
			return
		}
		e := kernel.Enc(v)
		if kernel.Cyclic(e) {
			panic("the emitted value contains itself (a JSON value is a tree): " + kernel.Short(e))
		}
		outs = append(outs, out{enc: e, marshal: marshalBounded(v, e)})
		vals = append(vals, v)
	}
	return
}

func viol(d *Data, class, format string, args ...any) *kernel.Violation {
	var sb strings.Builder
	for i, p := range d.Progs {
		fmt.Fprintf(&sb, "program %d: %s\n", i, p.Src)
	}
	for i, in := range d.Inputs {
		fmt.Fprintf(&sb, "input %d: %s (spare=%d alias=%v)\n", i, in.JSON, in.Spare, in.Alias)
	}
	fmt.Fprintf(&sb, "history: %s\n", opsString(d.Ops))
	return &kernel.Violation{Property: ID, Class: class, Case: kernel.NewCase(ID, "history", d), Detail: sb.String() + fmt.Sprintf(format, args...)}
}

func opsString(ops []Op) string {
	var parts []string
	for _, o := range ops {
		switch o.Kind {
		case "start":
			parts = append(parts, fmt.Sprintf("start(run%d, code%d, %s[%d])", o.Run, o.Code, o.Src, o.Idx))
		case "advance":
			parts = append(parts, fmt.Sprintf("advance(run%d x%d)", o.Run, o.N))
		default:
			parts = append(parts, fmt.Sprintf("%s(run%d)", o.Kind, o.Run))
		}
	}
	return strings.Join(parts, " ")
}

type violation = kernel.Violation

type stats struct {
	mapCalls                       int
	skip                           string
	ops, starts, advances, fedBack int
	overlap, sharedObj             bool
	emitted                        int
	sharedStructure                int
	outsLog                        []string // the observable sequence of the history (for cross-mode comparison)
}

func execute(d *Data) (*kernel.Violation, *stats) {
	st := &stats{}
	if len(d.Progs) == 0 || len(d.Inputs) == 0 {
		st.skip = "empty"
		return nil, st
	}
	codes := make([]*gojq.Code, len(d.Progs))
	vars := make([][]any, len(d.Progs))
	for i, p := range d.Progs {
		c, err := compileProg(p)
		if err != nil {
			st.skip = "compile error"
			return nil, st
		}
		codes[i] = c
		for _, s := range p.VarVals {
			vars[i] = append(vars[i], kernel.MustBuild(s))
		}
	}
	inputs := make([]any, len(d.Inputs))
	inputFP := make([]string, len(d.Inputs))
	for i, s := range d.Inputs {
		v, err := s.Build()
		if err != nil {
			st.skip = "bad input"
			return nil, st
		}
		inputs[i], inputFP[i] = v, kernel.EncFull(v)
	}
	varFP := make([]string, len(vars))
	for i := range vars {
		varFP[i] = kernel.EncFull(anyS(vars[i]))
	}
	constFP := make([]string, len(codes))
	for i, c := range codes {
		constFP[i] = kernel.EncFull(anyS(gojq.VerifConstants(c)))
	}
	var em []emitted
	runs := map[int]*liveRun{}
	usedInputs := map[int]int{} // input index -> number of live runs using it

	invariants := func(when string) *kernel.Violation {
		for i, v := range inputs {
			if fp := kernel.EncFull(v); fp != inputFP[i] {
				return viol(d, "input-modified", "%s: input %d changed\nbefore: %s\nafter:  %s", when, i, kernel.Short(inputFP[i]), kernel.Short(fp))
			}
		}
		for i := range vars {
			if fp := kernel.EncFull(anyS(vars[i])); fp != varFP[i] {
				return viol(d, "variable-modified", "%s: variable values of program %d changed\nbefore: %s\nafter:  %s", when, i, kernel.Short(varFP[i]), kernel.Short(fp))
			}
		}
		for i, c := range codes {
			if fp := kernel.EncFull(anyS(gojq.VerifConstants(c))); fp != constFP[i] {
				return viol(d, "constant-modified", "%s: a constant embedded in the code of program %d changed\nbefore: %s\nafter:  %s", when, i, kernel.Short(constFP[i]), kernel.Short(fp))
			}
		}
		for j, e := range em {
			fp := kernel.Enc(e.val)
			if fp != e.fp {
				return viol(d, "emitted-modified", "%s: value #%d emitted earlier by run %d changed\nat emission: %s\nnow:         %s", when, j, e.by, kernel.Short(e.fp), kernel.Short(fp))
			}
			if m := marshalBounded(e.val, fp); m != e.marshal {
				return viol(d, "emitted-modified", "%s: the serialisation of value #%d emitted earlier changed\nat emission: %s\nnow:         %s", when, j, kernel.Short(e.marshal), kernel.Short(m))
			}
		}
		return nil
	}

	// isolated runs a program to completion with nothing interleaved. fresh = on a fresh
	// compile (no state can have leaked into it); otherwise on the shared code object, which
	// isolates in time only. The start of a live run uses the latter, because whether an input is
	// the very object of a literal embedded in the code decides path validity (pointer identity),
	// and a fresh compile has other literal objects; the re-runs at the end of the history
	// compare the shared code with a fresh compile on caller-owned inputs.
	isolated := func(ci int, input any, freshCompile bool) ([]out, string) {
		fresh := codes[ci]
		if freshCompile {
			var err error
			if fresh, err = compileProg(d.Progs[ci]); err != nil {
				return nil, "compile"
			}
		}
		// the same caller-owned variable objects as the live runs: whether a value is "the same
		// object" as a variable decides path validity, so a copy would not be the same experiment
		ctx := simctx.New()
		ctx.Budget = d.Budget
		outs, _, pan := drainAll(fresh.RunWithContext(ctx, input, vars[ci]...), ctx)
		if pan != "" {
			return nil, "panic: " + pan
		}
		return outs, ""
	}

	start := func(o Op) *kernel.Violation {
		if o.Code < 0 || o.Code >= len(codes) {
			return nil
		}
		var input any
		srcDesc := ""
		switch o.Src {
		case "emitted":
			if len(em) == 0 {
				input, srcDesc = inputs[o.Idx%len(inputs)], "input"
				usedInputs[o.Idx%len(inputs)]++
			} else {
				e := em[o.Idx%len(em)]
				input, srcDesc = e.val, "emitted"
				st.fedBack++
				st.sharedObj = true
			}
		case "copy":
			input, srcDesc = kernel.MustBuild(d.Inputs[o.Idx%len(inputs)]), "copy"
		default:
			k := o.Idx % len(inputs)
			input, srcDesc = inputs[k], "input"
			if usedInputs[k] > 0 {
				st.sharedObj = true
			}
			usedInputs[k]++
		}
		_ = srcDesc
		if len(runs) > 0 {
			st.overlap = true
			for _, r := range runs {
				if r.code == o.Code {
					st.sharedObj = true
				}
			}
		}
		// the reference: a fresh compile run to completion with nothing interleaved, on the same
		// object (the run must not modify it, which the invariants check right after)
		iso, bad := isolated(o.Code, input, false)
		if strings.HasPrefix(bad, "panic") {
			return viol(d, "panic", "isolated run of program %d: %s", o.Code, bad)
		}
		if v := invariants(fmt.Sprintf("after the isolated reference run of program %d for %s", o.Code, opsString([]Op{o}))); v != nil {
			return v
		}
		iso2, _ := isolated(o.Code, input, false)
		if fmt.Sprint(iso) != fmt.Sprint(iso2) {
			return viol(d, "not-repeatable", "two uninterrupted runs of program %d on the same input object differ\nfirst:  %s\nsecond: %s", o.Code, kernel.Short(fmt.Sprint(iso)), kernel.Short(fmt.Sprint(iso2)))
		}
		ctx := simctx.New()
		ctx.Budget = d.Budget
		runs[o.Run] = &liveRun{it: codes[o.Code].RunWithContext(ctx, input, vars[o.Code]...), iso: iso, code: o.Code, in: input, ctx: ctx}
		st.starts++
		return nil
	}

	advance := func(slot int, r *liveRun, n int) (v *kernel.Violation) {
		defer func() {
			if p := recover(); p != nil {
				v = viol(d, "panic", "run %d (program %d) panicked: %v", slot, r.code, p)
			}
		}()
		for k := 0; k < n && !r.done; k++ {
			val, ok := r.it.Next()
			var got out
			switch {
			case !ok:
				got = out{end: true}
			case func() bool { _, isErr := val.(error); return isErr && r.ctx.Closed }():
				got = out{enc: "<step cap>", end: true}
			default:
				e := kernel.Enc(val)
				if kernel.Cyclic(e) {
					panic("the emitted value contains itself (a JSON value is a tree): " + kernel.Short(e))
				}
				got = out{enc: e, marshal: marshalBounded(val, e)}
			}
			st.advances++
			if r.pos >= len(r.iso) {
				r.done = true // beyond the output cap of the reference
				return nil
			}
			want := r.iso[r.pos]
			st.outsLog = append(st.outsLog, got.enc+"|"+got.marshal)
			if got != want {
				return viol(d, "output-differs", "run %d (program %d) output #%d: live %s, isolated run %s\nlive serialisation:     %s\nisolated serialisation: %s", slot, r.code, r.pos, kernel.Short(got.enc), kernel.Short(want.enc), kernel.Short(got.marshal), kernel.Short(want.marshal))
			}
			r.pos++
			if got.end {
				r.done = true
				return nil
			}
			if _, isErr := val.(error); !isErr && len(em) < 200 {
				em = append(em, emitted{val: val, fp: got.enc, marshal: got.marshal, by: slot})
				st.emitted++
			}
		}
		return nil
	}

	mem0 := simctx.MemEvents.Load()
	for i, o := range d.Ops {
		if simctx.MemEvents.Load() != mem0 {
			st.skip = "memory pressure"
			return nil, st
		}
		st.ops++
		switch o.Kind {
		case "start":
			if v := start(o); v != nil {
				return v, st
			}
		case "advance":
			r := runs[o.Run]
			if r == nil {
				continue
			}
			if v := advance(o.Run, r, max(1, o.N)); v != nil {
				return v, st
			}
		case "abandon":
			delete(runs, o.Run)
		}
		if v := invariants(fmt.Sprintf("after operation %d %s", i, opsString([]Op{o}))); v != nil {
			return v, st
		}
	}
	if simctx.MemEvents.Load() != mem0 {
		st.skip = "memory pressure"
		return nil, st
	}
	// drain what is still live, then restart everything once more
	for slot := 0; slot < 8; slot++ {
		if r := runs[slot]; r != nil {
			if v := advance(slot, r, maxOut+2); v != nil {
				return v, st
			}
		}
	}
	if v := invariants("after draining all live runs"); v != nil {
		return v, st
	}
	for ci := range codes {
		for k := range inputs {
			for _, mode := range []string{"same object", "equal fresh copy"} {
				in := inputs[k]
				if mode != "same object" {
					in = kernel.MustBuild(d.Inputs[k])
				}
				want, bad := isolated(ci, in, true)
				if bad != "" {
					continue
				}
				ctx := simctx.New()
				ctx.Budget = d.Budget
				got, _, pan := drainAll(codes[ci].RunWithContext(ctx, in, vars[ci]...), ctx)
				if pan != "" {
					return viol(d, "panic", "re-running program %d after the history panicked: %s", ci, pan), st
				}
				st.outsLog = append(st.outsLog, fmt.Sprint(got))
				if fmt.Sprint(got) != fmt.Sprint(want) {
					return viol(d, "rerun-differs", "re-running the compiled program %d on input %d (%s) after the history differs from a fresh compile\nreused code: %s\nfresh code:  %s", ci, k, mode, kernel.Short(fmt.Sprint(got)), kernel.Short(fmt.Sprint(want))), st
				}
			}
		}
	}
	if v := invariants("after the final re-runs"); v != nil {
		return v, st
	}
	return nil, st
}

func anyS(v []any) any {
	if v == nil {
		return []any{}
	}
	return v
}

func (Prop) Exec(c kernel.Case) *kernel.Violation {
	var d Data
	if err := c.Decode(&d); err != nil {
		return &kernel.Violation{Property: ID, Class: "bad-case", Detail: err.Error(), Case: c}
	}
	v, _ := executeModes(&d)
	return v
}

func (Prop) RunUnit(env *kernel.Env, unit int) {
	tr := tier(env.Tier)
	o := env.Out
	run := func(d Data) {
		o.Mark(kernel.NewCase(ID, "history", d))
		v, st := executeModes(&d)
		o.Inc("evaluations")
		if st.skip != "" {
			o.Inc("skipped_" + strings.ReplaceAll(st.skip, " ", "_"))
			return
		}
		o.Add("ops", int64(st.ops))
		o.Add("map_ranges_executed", int64(st.mapCalls))
		o.Add("op_start", int64(st.starts))
		o.Add("op_advance", int64(st.advances))
		o.Add("fed_back_values", int64(st.fedBack))
		o.Add("emitted_values_tracked", int64(st.emitted))
		if st.overlap && st.sharedObj {
			o.Distinct("nontrivial", fmt.Sprint(d.Progs, d.Inputs, d.Ops))
		}
		if v != nil {
			o.Violate(v)
		}
		if o.WantSample() && unit%7 == 0 {
			o.Sample(map[string]any{"programs": d.Progs, "inputs": d.Inputs, "history": opsString(d.Ops)})
		}
	}
	seeded := tr.Histories / unitSize
	if unit >= seeded {
		u := unit - seeded
		for k := 0; k < 10; k++ {
			idx := u*10 + k
			if idx < len(getPool()) {
				run(systematicHistory(idx, tr))
				o.Inc("systematic_histories")
			}
		}
		return
	}
	for k := 0; k < unitSize; k++ {
		run(genHistory(env.Seed, unit*unitSize+k, tr))
	}
}

func (Prop) Shrink(c kernel.Case) []kernel.Case {
	var d Data
	if c.Decode(&d) != nil {
		return nil
	}
	var out []kernel.Case
	add := func(e Data) { out = append(out, kernel.NewCase(ID, "history", e)) }
	n := len(d.Ops)
	for w := n / 2; w >= 1; w /= 2 {
		for i := 0; i+w <= n; i += w {
			e := d
			e.Ops = append(append([]Op{}, d.Ops[:i]...), d.Ops[i+w:]...)
			add(e)
		}
	}
	for i, o := range d.Ops {
		if o.Kind == "advance" && o.N > 1 {
			e := d
			e.Ops = append([]Op{}, d.Ops...)
			e.Ops[i].N = 1
			add(e)
		}
		if o.Kind == "start" && o.Src != "input" {
			e := d
			e.Ops = append([]Op{}, d.Ops...)
			e.Ops[i].Src = "input"
			add(e)
		}
	}
	if len(d.Progs) > 1 {
		for i := range d.Progs {
			e := d
			e.Progs = []ProgSpec{d.Progs[i]}
			e.Ops = append([]Op{}, d.Ops...)
			for j := range e.Ops {
				e.Ops[j].Code = 0
			}
			add(e)
		}
	}
	if len(d.Progs) == 1 {
		for _, src := range workload.ShrinkProgram(d.Progs[0].Src) {
			e := d
			e.Progs = []ProgSpec{{Src: src, VarNames: d.Progs[0].VarNames, VarVals: d.Progs[0].VarVals}}
			add(e)
		}
	}
	for i := range d.Inputs {
		if d.Inputs[i].Spare > 0 || d.Inputs[i].Alias {
			e := d
			e.Inputs = append([]kernel.ValueSpec{}, d.Inputs...)
			e.Inputs[i].Spare, e.Inputs[i].Alias = 0, false
			add(e)
		}
		for _, js := range workload.ShrinkJSON(d.Inputs[i].JSON) {
			e := d
			e.Inputs = append([]kernel.ValueSpec{}, d.Inputs...)
			e.Inputs[i].JSON = js
			add(e)
		}
	}
	return out
}

func (Prop) Describe(ev *kernel.Evidence) {
	st := ev.Coverage["stats"].(map[string]int64)
	sets := ev.Coverage["distinct_sets"].(map[string]int)
	ev.Coverage["evaluations"] = st["evaluations"]
	ev.Coverage["distinct_nontrivial"] = sets["nontrivial"]
	ev.Coverage["rule"] = "one evaluation = one history of start/advance/abandon operations over 1-3 compiled queries, 1-3 caller-owned input objects (spare slice capacity, aliased sub-containers) and up to 4 live iterators, with emitted values fed back as inputs while their producers are live; after every operation the deep fingerprints of inputs, variable values, code constants and every value emitted so far must be unchanged and every advance must equal the isolated run of a fresh compile; " +
		"non-trivial and distinct = distinct histories in which at least two runs overlap in time and share an object (input, emitted value or code)"
	ev.Coverage["history_operations"] = map[string]any{"total": st["ops"], "start": st["op_start"], "advance": st["op_advance"], "emitted_values_fed_back_as_inputs": st["fed_back_values"], "emitted_values_fingerprinted": st["emitted_values_tracked"]}
	ev.Coverage["map_order"] = mapOrderEvidence(st)
	ev.Coverage["components"] = map[string]string{
		"real":      "gojq parser, compiler, VM, natives, library encoder (Marshal)",
		"simulated": "the caller's history of operations over live iterators; Go map iteration order (map-order build only); context for the step cap",
		"absent":    "clock, network, disk, concurrency (C06's business)",
	}
	ev.Assumptions = []string{
		"the reference run uses a fresh compile on the same input object before the live run starts (the invariants verify at once that it left the object unchanged), so pointer-identity effects of copying cannot differ between the two",
		"the contents of a slice's spare capacity are not part of the claim, only [0:len]",
		"a same-value write is not a C05 violation (nothing a sequential caller can see); it is C06's business",
	}
}

// mapOrderEvidence reports from what the children measured, whichever binary the orchestrator is.
func mapOrderEvidence(st map[string]int64) any {
	if st["map_ranges_executed"] > 0 {
		return map[string]any{"build": "map-order variant: every map range of gojq and gojq/cli rewritten (go/ast, scratch copy) to ask the simulator for the order", "modes_per_history": "sorted, reverse, rotated by one, seeded shuffle", "map_ranges_executed_under_the_seam": st["map_ranges_executed"]}
	}
	return map[string]any{"build": "standard (the map-order variant could not be built from this tree): Go's own randomised map iteration order, the map-order sub-check was SKIPPED"}
}
