//go:build maporder

package c05

import (
	"fmt"

	"github.com/itchyny/gojq/verifmap"

	"verif/sim/kernel"
)

// The map-order build links against a scratch copy of the repository in which
// every `range` over a map asks verifmap.Keys for the order. Every permutation
// is legal under the Go specification, so the observable sequence of a history
// must not depend on the mode.

func setMapMode(m int) { verifmap.Mode = m }

var modes = []int{0, 1, 2, 3}

func executeModes(d *Data) (*violation, *stats) {
	var first *stats
	for _, m := range modes {
		verifmap.Mode = m
		verifmap.Calls = 0
		v, st := execute(d)
		st.mapCalls += verifmap.Calls
		verifmap.Mode = 0
		if v != nil {
			e := *d
			e.MapMode = m
			v.Case = kernel.NewCase(ID, "history", e)
			v.Detail = fmt.Sprintf("map iteration mode %d (0 sorted, 1 reverse, 2 rotated, 3 shuffled)\n", m) + v.Detail
			if m != 0 {
				v.Class = "map-order:" + v.Class
			}
			return v, st
		}
		if st.skip != "" {
			return nil, st
		}
		if first == nil {
			first = st
			continue
		}
		first.mapCalls += st.mapCalls
		if fmt.Sprint(st.outsLog) != fmt.Sprint(first.outsLog) {
			e := *d
			e.MapMode = m
			k := 0
			for k < len(st.outsLog) && k < len(first.outsLog) && st.outsLog[k] == first.outsLog[k] {
				k++
			}
			a, b := "<none>", "<none>"
			if k < len(first.outsLog) {
				a = first.outsLog[k]
			}
			if k < len(st.outsLog) {
				b = st.outsLog[k]
			}
			w := viol(&e, "map-order-dependence", "the observable sequence of the history depends on map iteration order: observation #%d\n sorted order:  %s\n mode %d:       %s", k, kernel.Short(a), m, kernel.Short(b))
			return w, first
		}
	}
	return nil, first
}
