package workload

import (
	"fmt"
	"strings"

	"verif/sim/kernel"
)

func in(js ...string) []kernel.ValueSpec {
	r := make([]kernel.ValueSpec, len(js))
	for i, j := range js {
		r[i] = kernel.ValueSpec{JSON: j}
	}
	return r
}

const (
	objIn   = `{"a":{"b":[1,2,{"c":3}],"q":{"r":1,"s":[]},"x":{"b":5}},"k":[3,1,2],"s":"héllo wörld","n":null,"t":true,"z":{"y":{"x":{"w":[]}}}}`
	arrIn   = `[3,1,[2,{"a":1}],"x",null,{"b":[4,5,6]},[[]],2,1]`
	numsIn  = `[5,3,8,1,9,2,7,4,6,0]`
	objsIn  = `[{"k":2,"v":"b"},{"k":1,"v":"a"},{"k":2,"v":"c"},{"k":3,"v":[1,2]},{"k":1,"v":{"z":1}}]`
	deepIn  = `{"a":[{"b":[{"c":[1,2,3]},{"c":[]}]},{"b":[]}],"d":{"e":{"f":{"g":[{"h":1},{"h":2}]}}}}`
	strIn   = `"the quick brown fox jumps over the lazy dog, ΑΒΓ αβγ 12 345"`
	smallIn = `{"a":1,"b":[1,2],"c":{"d":null}}`
)

// Loops lists loop forms (finite and infinite). Every entry is a complete
// program; %TICK% marks where Mode B places its tick callback (replaced by
// `.` for Mode A and the other properties).
var Loops = []struct{ Src, In string }{
	// plain infinite loops
	{`repeat(%TICK%)`, `1`},
	{`repeat(%TICK%; .)`, `1`},
	{`def f: %TICK% | f; f`, `0`},
	{`def f: %TICK%, f; f`, `0`},
	{`def f: (%TICK% | f), 1; f`, `0`},
	{`def f(g): g | f(g); f(%TICK%)`, `0`},
	{`def f($n): $n | %TICK% | f($n+1); f(0)`, `0`},
	{`def f: if %TICK% then f else . end; f`, `1`},
	{`def f: def g: %TICK% | f; g; f`, `0`},
	{`def f: %TICK% | f; def g: f; g, g`, `0`},
	{`def f: reduce %TICK% as $x (0; .) | f; f`, `0`},
	{`range(infinite) | %TICK%`, `null`},
	{`range(0; infinite; 2) | %TICK%`, `null`},
	{`range(1e9) | %TICK%`, `null`},
	{`range(0; 1e9) | %TICK% | select(. < 0)`, `null`},
	{`[range(1e9) | %TICK%]`, `null`},
	{`last(range(1e9) | %TICK%)`, `null`},
	{`while(true; %TICK%)`, `0`},
	{`while(%TICK% | true; .+1)`, `0`},
	{`until(false; %TICK%)`, `0`},
	{`until(%TICK% | false; .+1)`, `0`},
	{`recurse(%TICK%)`, `0`},
	{`recurse(%TICK%; true)`, `0`},
	{`recurse(%TICK% | .+1; . < 1e9)`, `0`},
	{`[recurse(if %TICK% < 1e9 then .+1 else empty end)] | length`, `0`},
	{`limit(1e9; repeat(%TICK%))`, `1`},
	{`first(repeat(%TICK%) | select(. < 0))`, `1`},
	{`isempty(repeat(%TICK%) | select(. < 0))`, `1`},
	{`nth(1e9; repeat(%TICK%))`, `1`},
	{`label $out | repeat(%TICK%) | select(. < 0) | ., break $out`, `1`},
	{`label $out | foreach repeat(%TICK%) as $x (0; .+1; select(. < 0) | ., break $out)`, `1`},
	{`reduce range(1e9) as $i (0; %TICK% | .+$i)`, `null`},
	{`reduce repeat(%TICK%) as $i (0; .+1)`, `1`},
	{`foreach range(1e9) as $i (0; %TICK% | .+$i)`, `null`},
	{`foreach range(1e9) as $i (0; .+$i; %TICK%)`, `null`},
	{`foreach repeat(%TICK%) as $i (0; .+1; select(. < 0))`, `1`},
	{`try repeat(%TICK%) catch .`, `1`},
	{`try (def f: %TICK% | f; f) catch .`, `1`},
	{`(repeat(%TICK%))?`, `1`},
	{`repeat(%TICK%) // 1`, `1`},
	{`first(empty) // repeat(%TICK%)`, `1`},
	{`repeat(%TICK%) as $x | empty`, `1`},
	{`repeat(%TICK%) as [$x] ?// $x | empty`, `1`},
	{`. as $d | repeat($d | %TICK%) | empty`, `1`},
	{`[limit(3; repeat(%TICK%))] | repeat(%TICK%)`, `1`},
	{`path(repeat(%TICK%))`, `1`},
	{`path(recurse(%TICK%))`, `0`},
	{`[paths] | repeat(%TICK%)`, `[1,[2]]`},
	{`any(repeat(%TICK%); . < 0)`, `1`},
	{`all(repeat(%TICK%); . > 0)`, `1`},
	{`first(range(1e9) | %TICK% | select(. < 0))`, `null`},
	{`[.[] | repeat(%TICK%)]`, `[1,2]`},
	{`{a: repeat(%TICK%)}`, `1`},
	{`{(repeat(%TICK%) | tostring): 1}`, `1`},
	{`"\(repeat(%TICK%))"`, `1`},
	{`repeat(%TICK%) + 1`, `1`},
	{`1 + repeat(%TICK%)`, `1`},
	{`if repeat(%TICK%) then empty else empty end`, `1`},
	{`.[repeat(%TICK%)]`, `0`},
	{`def f: def g: %TICK% | g; g; f`, `0`},
	{`def f(x): x | f(x); f(%TICK%)`, `0`},
	{`def f(x; $y): x | f(x; $y); f(%TICK%; 1)`, `0`},
	{`def f: if . < 1e9 then (%TICK% | .+1 | f) else . end; f`, `0`},
	{`def f: if . < 1e9 then (.+1 | %TICK% | f) elif . < 0 then f else f end; f`, `0`},
	{`def f: (select(. < 0) | f) // (%TICK% | .+1 | f); f`, `0`},
	{`def f: . as $x | %TICK% | f; f`, `0`},
	{`def f: [%TICK%] | .[0] | f; f`, `0`},
	{`def f: try (%TICK% | f) catch .; f`, `0`},
	{`def f: label $l | %TICK% | f; f`, `0`},
	{`def f: %TICK% | g; def g: f; f`, `0`},
	{`limit(1e9; range(1e9) | %TICK%)`, `null`},
	{`range(1e9) as $i | %TICK% | empty`, `null`},
	{`.[] |= repeat(%TICK%)`, `[1]`},
	{`map(repeat(%TICK%))`, `[1]`},
	{`map_values(repeat(%TICK%))`, `{"a":1}`},
	{`walk(repeat(%TICK%))`, `1`},
	{`to_entries | repeat(%TICK%)`, `{"a":1}`},
	{`with_entries(repeat(%TICK%))`, `{"a":1}`},
	{`del(repeat(%TICK%) | empty)`, `{"a":1}`},
	{`.a = repeat(%TICK%)`, `{"a":1}`},
	{`.a += repeat(%TICK%)`, `{"a":1}`},
	{`sort_by(repeat(%TICK%))`, `[1,2]`},
	{`group_by(repeat(%TICK%))`, `[1,2]`},
	{`min_by(repeat(%TICK%))`, `[1,2]`},
	{`unique_by(repeat(%TICK%))`, `[1,2]`},
	{`gsub("a"; repeat("b" | %TICK%))`, `"aaa"`},
	{`[match("a"; "g")] | repeat(%TICK%)`, `"aaa"`},
	{`tostream | repeat(%TICK%)`, `[1,[2]]`},
	{`fromstream(repeat([[0],1] | %TICK%))`, `null`},
	{`getpath(["a"]) | repeat(%TICK%)`, `{"a":1}`},
	{`limit(5; repeat(%TICK%)), repeat(%TICK%)`, `1`},
	{`first(repeat(%TICK%)), last(limit(3; repeat(%TICK%))), repeat(%TICK%)`, `1`},
	{`combinations | repeat(%TICK%)`, `[[1,2],[3,4]]`},
	{`splits("a") | repeat(%TICK%)`, `"bab"`},
	{`ascii | repeat(%TICK%)`, `65`},
	{`env | repeat(%TICK%)`, `null`},
	{`$__loc__ | repeat(%TICK%)`, `null`},
	{`input_line_number | repeat(%TICK%)`, `null`},
	{`error(repeat(%TICK%) | select(. < 0))`, `1`},
	{`try error(1) catch repeat(%TICK%)`, `1`},
	{`(1,2) | repeat(%TICK%)`, `null`},
	{`.. | repeat(%TICK%)`, `[[1]]`},
	{`..|repeat(%TICK%)?`, `[[1]]`},
	{`getpath(["a","b"]) as $x | repeat(%TICK%)`, `null`},
	{`limit(3; repeat(%TICK%)) | repeat(%TICK%)`, `1`},
	{`pick(repeat(%TICK%) | empty)`, `{"a":1}`},
	{`have_literal_numbers | repeat(%TICK%)`, `null`},
	{`abs | repeat(%TICK%)`, `-1`},
	{`toarray | repeat(%TICK%)`, `1`},
	{`trim | repeat(%TICK%)`, `" a "`},
	{`ltrimstr("a") | repeat(%TICK%)`, `"ab"`},
	{`getpath(["x"]) | [repeat(%TICK%)]`, `null`},
	{`[.[] | %TICK%] | repeat(%TICK%)`, `[1,2,3]`},
	{`add(repeat(%TICK%))`, `1`},
	{`add(range(1e9) | %TICK%)`, `null`},
	{`skip(1e9; repeat(%TICK%))`, `1`},
	{`limit(1e9; repeat(%TICK%)) | select(. < 0)`, `1`},
	{`until(. > 1e9; %TICK% | .+1)`, `0`},
	{`while(. < 1e9; %TICK% | .+1) | select(. < 0)`, `0`},
	{`last(while(. < 1e9; %TICK% | .+1))`, `0`},
	{`def r: range(1e9) | %TICK%; first(r | select(. < 0))`, `null`},
	{`IN(repeat(%TICK%) | select(. < 0))`, `1`},
	{`index("a") | repeat(%TICK%)`, `"bab"`},
	{`[repeat(%TICK%) | select(. < 0)][0]`, `1`},
	{`input_filename? // repeat(%TICK%)`, `1`},
}

// Finite lists finite programs with several outputs, errors in the middle,
// try/catch, paths, updates: used by Mode A (every cancel instant) and by the
// isolation / concurrency / optimisation simulations.
var Finite = []struct{ Src, In string }{
	{`.[]`, arrIn},
	{`.[] | .`, numsIn},
	{`..`, deepIn},
	{`[..] | length`, deepIn},
	{`paths`, deepIn},
	{`[paths]`, objIn},
	{`path(..)`, smallIn},
	{`[path(..)] | length`, deepIn},
	{`leaf_paths`, deepIn},
	{`tostream`, deepIn},
	{`[tostream] | fromstream(.[])`, deepIn},
	{`fromstream(tostream)`, deepIn},
	{`to_entries`, objIn},
	{`with_entries(.value |= tostring)`, smallIn},
	{`map_values(.)`, objIn},
	{`map(. * 2)`, numsIn},
	{`map(select(. > 3))`, numsIn},
	{`sort`, arrIn},
	{`sort_by(.k)`, objsIn},
	{`group_by(.k)`, objsIn},
	{`unique_by(.k)`, objsIn},
	{`min_by(.k), max_by(.k)`, objsIn},
	{`unique`, arrIn},
	{`reverse`, arrIn},
	{`flatten`, arrIn},
	{`flatten(1)`, arrIn},
	{`add`, `[[1],[2,3],[4]]`},
	{`add`, `[{"a":1},{"b":2},{"a":3}]`},
	{`add(.[] | .[0:1])`, `[[1,2],[3,4]]`},
	{`.[1:3]`, arrIn},
	{`.[2:] + .[:2]`, numsIn},
	{`.[1:3] = ["x"]`, numsIn},
	{`.[1:3] |= map(.+1)`, numsIn},
	{`del(.[1:3])`, numsIn},
	{`del(.[0], .[2], .[4])`, numsIn},
	{`del(.a.q)`, objIn},
	{`del(.a.b[0])`, objIn},
	{`del(.a.q.r, .k[1])`, objIn},
	{`del(..|.c?)`, objIn},
	{`delpaths([["a","q"],["k",0]])`, objIn},
	{`delpaths([["z","y","x","w"]])`, objIn},
	{`.a.b[1] = 10`, objIn},
	{`.a.q.r |= .+1`, objIn},
	{`.k[] += 1`, objIn},
	{`.k |= sort`, objIn},
	{`.a |= with_entries(.key |= ascii_upcase)`, objIn},
	{`.a.b |= map(select(type == "number"))`, objIn},
	{`(.a.b[], .k[]) |= tostring`, objIn},
	{`.[] |= (. , .)`, numsIn},
	{`.[] |= empty`, numsIn},
	{`(.[] | select(. > 4)) |= empty`, numsIn},
	{`.k += [4]`, objIn},
	{`.a * {"q":{"t":2},"new":1}`, objIn},
	{`. * {a:{b:1}}`, objIn},
	{`.a + .z`, objIn},
	{`.k - [1]`, objIn},
	{`setpath(["a","b",0]; 9)`, objIn},
	{`setpath(["k"]; .k + [1])`, objIn},
	{`getpath(["a","b",2,"c"])`, objIn},
	{`to_entries | from_entries`, objIn},
	{`keys, values? , length`, objIn},
	{`[.[] | tostring]`, arrIn},
	{`tojson | fromjson`, objIn},
	{`[limit(3; .[])]`, numsIn},
	{`first(.[]), last(.[]), nth(2; .[])`, numsIn},
	{`[range(5)] | map(. * .)`, `null`},
	{`[range(0; 10; 3)]`, `null`},
	{`reduce .[] as $x (0; . + $x)`, numsIn},
	{`reduce .[] as $x ([]; . + [$x])`, numsIn},
	{`reduce .[] as $x ({}; .[$x|tostring] = $x)`, numsIn},
	{`foreach .[] as $x (0; . + $x; [$x, .])`, numsIn},
	{`foreach .[] as $x ([]; . + [$x])`, numsIn},
	{`[foreach .[] as [$a] (0; .+1; .)]`, `[[1],[2]]`},
	{`. as [$a, $b] | {a: $a, b: $b}`, numsIn},
	{`. as {a: {b: [$x, $y]}} | [$x, $y]`, objIn},
	{`.[] as [$a] ?// $a | [$a]`, `[[1], 2, [3]]`},
	{`try error("x") catch .`, `null`},
	{`try error({a:1}) catch .a`, `null`},
	{`.[] | try (if . > 5 then error("big") else . end) catch "caught"`, numsIn},
	{`.[] | (if . > 5 then error("big") else . end)`, numsIn},
	{`[.[] | (1 / .)?]`, `[1,0,2]`},
	{`.[] | 1 / .`, `[1,0,2]`},
	{`.a.b.c`, `{"a":{"b":5}}`},
	{`.[] | .a?`, arrIn},
	{`.[] | .a`, arrIn},
	{`(.a, .b) = 1`, smallIn},
	{`(.a, .b) |= . + 1`, `{"a":1,"b":2}`},
	{`label $f | .[] | if . == 8 then break $f else . end`, numsIn},
	{`[label $f | .[] | if . == 8 then break $f else . end]`, numsIn},
	{`first(.[] | select(. > 5))`, numsIn},
	{`isempty(.[] | select(. > 50))`, numsIn},
	{`any(.[]; . > 5), all(.[]; . > 5)`, numsIn},
	{`[.[] | if . % 2 == 0 then "even" elif . % 3 == 0 then "three" else "other" end]`, numsIn},
	{`.[] | select(. > 2 and . < 7 or . == 0)`, numsIn},
	{`[.[] // "d"]`, `[null,false,1]`},
	{`(.a // "d"), (.zz // "d"), (empty // 3)`, smallIn},
	{`[.[] | numbers, strings]`, arrIn},
	{`def f: .+1; def g: f | f; [.[] | g]`, numsIn},
	{`def fac: if . <= 1 then 1 else . * (. - 1 | fac) end; [.[] | fac]`, `[1,5,10,20]`},
	{`def fib: if . < 2 then . else (.-1|fib) + (.-2|fib) end; [range(12) | fib]`, `null`},
	{`def f(g): [g]; f(.[] | select(. > 3))`, numsIn},
	{`def f($a; $b): $a + $b; f(.[0]; .[1])`, numsIn},
	{`def f(a; b): a as $x | b as $y | [$x, $y]; [f(.[0:2][]; .[2:4][])]`, numsIn},
	{`def map2(f): [.[] | f]; map2(map2(.)?)`, `[[1],[2]]`},
	{`def r: if type == "array" then .[] | r else . end; [r]`, arrIn},
	{`def acc($n): if $n == 0 then . else (. + $n | acc($n - 1)) end; acc(100)`, `0`},
	{`[recurse(if . < 50 then . * 2 else empty end)]`, `1`},
	{`[recurse(.[]?; . != null)] | length`, arrIn},
	{`[while(. < 100; . * 2)]`, `1`},
	{`[until(. > 100; . * 2)]`, `1`},
	{`[repeat(. * 2; . > 100)]?`, `1`},
	{`[limit(10; repeat(. * 2))]`, `1`},
	{`[.[] | tostring | ascii_downcase | test("[a-c]")]`, arrIn},
	{`[match("(?<w>[a-z]+) "; "g") | .captures[0].string]`, strIn},
	{`gsub("(?<v>[aeiou])"; "<\(.v)>")`, strIn},
	{`sub("quick"; "slow")`, strIn},
	{`[scan("[a-z]+")] | length`, strIn},
	{`split(" ") | map(length)`, strIn},
	{`[splits(", *")]`, strIn},
	{`capture("(?<a>[a-z]+) (?<b>[a-z]+)")`, strIn},
	{`ascii_upcase | explode | implode`, strIn},
	{`@base64, @uri, @html, @sh, @json, @text`, strIn},
	{`@csv, @tsv`, `[1,"a,b","c\td",null,true]`},
	{`"x\(.a)y\(.b | tojson)z"`, smallIn},
	{`@base64 "v=\(.a)"`, smallIn},
	{`{a, b: .b[0], "c": .c.d, (.a|tostring): 1, "x\(.a)": 2}`, smallIn},
	{`{a: (1,2), b: (3,4)}`, `null`},
	{`[.[] as $x | .[] as $y | select($x < $y) | [$x, $y]] | length`, numsIn},
	{`[combinations]`, `[[1,2],[3,4]]`},
	{`transpose`, `[[1,2],[3]]`},
	{`[.[] | tojson] | join(",")`, arrIn},
	{`indices(1), index(1), rindex(1)`, arrIn},
	{`inside([3,1,2,4]), contains([1])`, `[3,1]`},
	{`[.[] | type]`, arrIn},
	{`[splits("o")] | join("0")`, strIn},
	{`ltrimstr("the "), rtrimstr("345"), startswith("the"), endswith("x")`, strIn},
	{`tojson, (tojson | fromjson), tostring`, objIn},
	{`getpath(["a","b"]) as $x | $x | length`, objIn},
	{`[paths(type == "number")]`, objIn},
	{`[leaf_paths] | length`, objIn},
	{`pick(.a.b[1], .k)`, objIn},
	{`to_entries[] | select(.value | type == "object") | .key`, objIn},
	{`walk(if type == "array" then sort else . end)`, `[3,[2,1],{"a":[9,8]}]`},
	{`walk(if type == "number" then . + 1 else . end)`, objIn},
	{`[.. | numbers] | add`, objIn},
	{`input_line_number`, `null`},
	{`$__loc__`, `null`},
	{`[splits("a";"g")]`, `"banana"`},
	{`ascii, @text, tojson`, `65`},
	{`bsearch(5), bsearch(10)`, `[1,3,5,7]`},
	{`getpath(["a",0,"b"])?`, objIn},
	{`try (.a[] = 1) catch .`, `{"a":5}`},
	{`try (.[0] = 1) catch .`, `{"a":5}`},
	{`.a = 1`, `5`},
	{`.a[1:2] = 1`, `{"a":[1,2,3]}`},
	{`.. |= .`, smallIn},
	{`.. |= (if type == "number" then .+1 else . end)`, objIn},
	{`[limit(0; 1,2)], [limit(-1; 1,2)]?`, `null`},
	{`tojson | . , length`, objIn},
	{`ltrimstr(1), rtrimstr(1), ascii_downcase?`, `"a"`},
	{`.[] | tonumber?`, `["1","x","2.5",3]`},
	{`.[] | tonumber`, `["1","x","2.5",3]`},
	{`error`, `"plain"`},
	{`error(null)`, `1`},
	{`.[] | error`, `[1,2]`},
	{`try error catch .`, `{"a":1}`},
	{`(error("a"), 1)?, 2`, `null`},
	{`try (1, error("x"), 3) catch .`, `null`},
	{`[.[] | try error catch .]`, `[1,null,"a"]`},
	{`try (try error("x") catch error("y")) catch .`, `null`},
	{`.a."b", ."a"["b"], .["a"].b`, `{"a":{"b":1}}`},
	{`.[1.5], .[-1], .[10]`, numsIn},
	{`.[:2], .[-2:], .[2:4]`, strIn},
	{`{} | .a.b.c = 1 | .a.b.d[2] = 2`, `null`},
	{`[.[] | select(type == "array")] | map(length)`, arrIn},
	{`ltrimstr("a") as $x | [$x]`, `"ab"`},
	{`getpath(["a"]; ["b"])?`, smallIn},
	{`splits("a") , 1`, `1`},
	{`limit(3; .[]) , "end"`, numsIn},
	{`tojson | test("a")`, smallIn},
	{`halt_error`, `"bye\n"`},
	{`1, halt, 2`, `null`},
	{`"a" | halt_error(3)`, `null`},
	{`builtins | length > 100`, `null`},
	{`[.[] | . as $x | try ($x | if . > 5 then error else . end) catch -1]`, numsIn},
	{`1 as $x | 2 as $y | [$x, $y, $__loc__]`, `null`},
	{`[.[] | [.] | first]`, numsIn},
	{`to_entries | map(select(.key | test("^[ak]"))) | from_entries | keys`, objIn},
	{`. as $o | keys | map($o[.] | type)`, objIn},
	{`[paths] | map(tojson) | unique | length`, objIn},
	{`reduce range(50) as $i ([]; . + [$i * $i]) | .[10:13]`, `null`},
	{`reduce range(30) as $i ({}; .["k\($i)"] = $i) | keys | length`, `null`},
	{`[range(20)] | map(select(. % 3 == 0)) | add`, `null`},
	{`[range(20)] | .[3:7] as $s | $s + $s`, `null`},
	{`[range(10)] | .[2:4] = ["a","b","c"] | length`, `null`},
	{`[range(10)] | del(.[2:4], .[7]) | length`, `null`},
	{`[range(10)] | (.[] | select(. % 2 == 0)) |= . * 10`, `null`},
	{`[range(10)] | to_entries | map(select(.key > 6)) | from_entries?`, `null`},
	{`@json "v: \(.)"`, objIn},
	{`[.[] | @text]`, arrIn},
	{`ascii_downcase | [match("o"; "g").offset]`, strIn},
	{`test("FOX"; "i"), test("fox"; null), [match("o"; "gx") | .length]`, strIn},
	{`[match(["(o)", "g"]) | .captures | length]`, strIn},
	{`limit(2; .[] | select(. > 100)) // "none"`, numsIn},
	{`significand, logb, gamma, frexp, modf`, `8.5`},
	{`[1,2] | IN([1,2],[3]) , INDEX(.)`, `null`},
	{`getpath(["a","b"]) |= 5`, `null`},
	{`tojson`, `[1,1.0,1e100,100000000000000000000,-0]`},
	{`map(. + 1), map(. * 1000000000000)`, `[1,9007199254740993,100000000000000000000,1.5]`},
	{`.[] | . % 7, (. / 3 | floor)`, `[10,100000000000000000000,-5]`},
	{`sort, (map(tostring) | sort)`, `[10,9.5,100000000000000000000,-1,1e3]`},
	{`min, max, add, (map(. * 2) | add)`, `[3,1.5,100000000000000000000]`},
	{`splits(" +") | ascii_upcase`, `"a  b c"`},
	{`@sh`, `["a b", 1, "it's"]`},
	{`ltrimstr("x") | rtrimstr("y") | length`, `"xaby"`},
	{`env | type, ($ENV | length)`, `null`},
	{`getpath(["a"]) as [$x] ?// $x | $x`, `{"a":[1]}`},
	{`.[] as {a: $x} ?// [$x] | $x`, `[{"a":1},[2]]`},
	{`[.[] | (.a, .b)?]`, `[{"a":1,"b":2}, 3, {"a":4}]`},
	{`[limit(5; def f: ., (.+1 | f); f)]`, `0`},
	{`[limit(5; recurse(.+1))]`, `0`},
	{`[first(range(10; 0; -1))]`, `null`},
	{`[range(5; 0; -2)], [range(0; 1; 0.3)]`, `null`},
	{`tostream | select(length == 2) | .[0] | join(".")?`, `{"a":{"b":1},"c":"x"}`},
	{`[tostream] | length`, arrIn},
	{`getpath(paths) | scalars`, smallIn},
	{`[paths(..)] | length`, smallIn},
	{`any, all`, `[true,false]`},
	{`flatten | unique | length`, arrIn},
	{`group_by(type) | map(length)`, arrIn},
	{`[.[] | strings] | join("-")`, arrIn},
	{`splits("") `, `"ab"`},
	{`ascii(65)?`, `null`},
	{`[.[]?]`, `1`},
	{`.. ?`, `1`},
	{`try ([1] | .[0] = (1,2)) catch .`, `null`},
	{`[.[0] = (1,2)]`, `[0]`},
	{`[.a = (.b, .c)]`, `{"b":1,"c":2}`},
	{`.a += (1,2)`, `{"a":0}`},
	{`[.[] += (10,20)]`, `[1,2]`},
	{`.a //= 3 | .b //= 4`, `{"a":null,"b":1}`},
	{`.a |= (.b |= 1)`, `{"a":{}}`},
	{`.a *= 2 | .b -= 1 | .c /= 2 | .d %= 3`, `{"a":1,"b":2,"c":3,"d":4}`},
	{`to_entries | map(.value) | add`, `{"a":[1],"b":[2]}`},
	{`del(.[] | select(. > 4))`, numsIn},
	{`del(.a, .b, .zz)`, smallIn},
	{`del(.[-1], .[0])`, numsIn},
	{`del(.. | select(. == null))?`, smallIn},
	{`delpaths([paths(type == "number")])`, objIn},
	{`delpaths([[]])`, objIn},
	{`[paths] as $p | delpaths($p[0:2])`, smallIn},
	{`to_entries | map(del(.value)) `, smallIn},
	{`with_entries(select(.value != null))`, objIn},
	{`tojson | [match("[0-9]"; "g").string] | map(tonumber) | add`, objIn},
}

// Aliasing lists programs that hand builtins arrays and objects the query does not own in the
// positions where an accumulator might adopt them: prefix slices of the input (their capacity
// runs on over the following elements), collected arrays (spare capacity), empty operands (an
// addition may return the other operand itself), each followed by a second use of the same value.
var Aliasing = func() []struct{ Src, In string } {
	var out []struct{ Src, In string }
	arrIn := `[1,2,3,4,5,6]`
	objIn := `{"a":{"p":1,"q":{"r":[1]}},"z":{"s":2},"e":{},"k":[1,2,3],"l":[]}`
	builders := []string{
		`[.[:2], .[3:]]`, `[.[:1], [9], .[1:]]`, `[.[:2], [], .[4:]]`, `[[], .[:2], [9]]`, `[.[:2], [[7]], .[3:]]`, `[.[:3]]`, `[.[1:3], .[:1]]`,
		`.[:2] as $h | (7, 8) | [$h, [.]]`, `[.[] | select(. > 2)] as $p | (10, 20) | [$p, [.]]`, `. as $x | [$x[:1], $x[2:4], $x[:1]]`,
	}
	consumers := []string{
		`flatten`, `flatten(1)`, `add`, `.[0] + .[1]`, `map(. + [0])`, `.[0] += [5]`, `.[0][2] = 5`, `(.[0] | .[length] = 5)`, `transpose`, `[.[][]]`, `sort`, `unique`, `reverse`, `first`, `tojson`,
		`.[0] |= . + [1]`, `del(.[0][0])`, `.[0][:1] + .[1]`, `(.[0], .[1]) |= . + [1]`, `reduce .[] as $c ([]; . + $c)`, `[.[] | .[0:1]] | add`, `add | .[0] = 99`, `flatten | .[0] = 99`, `(add, add)`, `(flatten, flatten)`,
		`.[0] as $f | [$f, $f] | flatten`, `[limit(2; .[])] | add`, `add(.[])`, `[.[] | . + [0]]`, `.[0] + [] | .[0] = 99`, `[] + .[0] | .[0] = 99`, `combinations | add?`, `map(length)`, `min, max`, `group_by(length) | add | add`,
	}
	for _, b := range builders {
		for _, c := range consumers {
			out = append(out, struct{ Src, In string }{"(" + b + " | " + c + "), .", arrIn})
		}
	}
	for _, src := range []string{
		`[{}, .a, .z] | add`, `[.a, {}, .z] | add`, `[null, .a, {}, .z] | add`, `[.e, .a, .z] | add`, `[.a, .e, .z] | add`, `[.l, .k, [9]] | add`, `[.k, .l, [9]] | add`, `[.k[:1], .l, [9]] | add`,
		`.a + {} | .new = 1`, `{} + .a | .new = 1`, `.a + .e | .new = 1`, `.e + .a | .new = 1`, `.a * {} | .new = 1`, `{} * .a | .new = 1`, `.a * .e | .q.t = 1`, `.k + [] | .[0] = 9`, `[] + .k | .[0] = 9`, `.k + .l | .[0] = 9`, `.l + .k | .[0] = 9`,
		`.k - [] | .[0] = 9`, `[.a, .z] | add | .new = 1`, `[.a] | add | .new = 1`, `[.k] | add | .[0] = 9`, `[.k, []] | add | .[0] = 9`, `[[], .k] | add | .[0] = 9`, `(.a + {}), (.a + {} | .x = 1), .a`, `add(.e, .a, .z)`, `add(.a, .e, .z)`,
		`reduce (.e, .a, .z) as $o (null; . + $o)`, `reduce (.a, .e, .z) as $o ({}; . + $o)`, `[.a, .e] | add | .q.r += [2]`, `.a as $a | [$a, {}] | add | .p = 9 | ., $a`, `[.e, .a] | add as $s | $s | .p = 9 | ., $s`,
	} {
		out = append(out, struct{ Src, In string }{"(" + src + "), .", objIn})
	}
	// updates through several paths where the function of a later path receives a slice (a view
	// sharing its elements with the array being rebuilt) and its result keeps that view
	multi := []string{
		`(.[0], .[1:])`, `(.[0], .[1:2])`, `(.[0], .[0:2])`, `(.[1:], .[0])`, `(.[1:3], .[1:3])`, `(.[0], .[1:], .[1])`, `(.[0], .[2:4], .[1:3])`, `(.[-1], .[:-1])`, `(.[0], .[1:][0:1])`,
		`.[1:]`, `(.[0] | select(. == 99) // (.[0], .[:2]))`, `(.[0], (.[1:] | select(length > 1)))`,
	}
	funcs := []string{
		`[.]`, `[., .]`, `[[.]]`, `[.[0:1], .[1:2]]?`, `[.[1:]]?`, `{a: .}`, `. + [.]`, `[.[]?]`, `.`, `(.[1:] + .[:1])?`, `[.] | .[0][0] = 7`, `. as $v | [$v, $v]`, `empty`, `(., [.])`,
	}
	for _, m := range multi {
		for _, f := range funcs {
			for _, op := range []string{"|=", "+=", "="} {
				if op != "|=" && f != "[.]" && f != "[., .]" && f != "." {
					continue // the right-hand side of `=` and `+=` is evaluated before the reduction starts
				}
				out = append(out, struct{ Src, In string }{"(" + m + " " + op + " " + f + "), .", arrIn})
			}
		}
	}
	for _, src := range []string{
		`(.k[0], .k[1:]) |= [.]`, `(.a.p, .k[1:2]) |= [.]`, `(.k[0], .k[0:1]) |= [., .]`, `.k |= ((.[0], .[1:]) |= [., .])`, `(.k, .l) |= [.]`, `(.k[0], .k[1:3]) |= [.[0:1], .[1:2]]`, `map_values(arrays |= ((.[0], .[1:]) |= [.]))`, `(.k[0], .k[1:]) |= [.] | .k[1][0] = 9`, `[.k, .k] | (.[0][0], .[0][1:], .[1][1:]) |= [.]`, `to_entries | (.[0], .[1:2]) |= [.] | length`,
		`reduce (1, 2) as $i (.; (.k[0], .k[1:]) |= [.])`, `(.k[0], .k[1:]) |= [.] | (.k[0], .k[1:]) |= [.]`, `del(.k[0], .k[1:2])`, `delpaths([["k", 0], ["k", {"start": 1, "end": 2}]])`, `(.k[0], .k[1:2]) |= empty`, `(.k[1:2], .k[0]) |= empty`, `pick(.k[1:])?`, `(.k[0], .k[1:]) |= (.. |= .)`,
	} {
		out = append(out, struct{ Src, In string }{"(" + src + "), .", objIn})
	}
	return out
}()

// BigOperands: every binary operator and multi-operand builtin applied to operands beyond the
// small-size thresholds (arrays of 20-40 unsorted elements, objects of 14 keys) that the query does
// not own: the input, slices of it, a variable ($big / $bigo) and literals embedded in the code.
// VarNames/VarVals for these programs are BigVarNames/BigVarVals.
var (
	BigVarNames = []string{"$big", "$bigo"}
	BigArrJSON  = func() string {
		xs := make([]string, 40)
		for i := range xs {
			xs[i] = fmt.Sprint((i * 37) % 41)
		}
		return "[" + strings.Join(xs, ",") + "]"
	}()
	BigObjJSON = func() string {
		xs := make([]string, 14)
		for i := range xs {
			xs[i] = fmt.Sprintf("%q:[%d,{\"z\":%d}]", string(rune('n'-i))+"k", i, (i*5)%14)
		}
		return "{" + strings.Join(xs, ",") + "}"
	}()
	BigVarVals = []string{
		`[29,3,17,40,8,21,35,1,12,38,5,26,19,33,7,14,31,2,23,10,36,4,27,16,39,9,20,30,6,25]`,
		`{"zk":[9,1],"ak":[0,{"z":3}],"mk":1,"bk":[2],"yk":null,"ck":"s","xk":[],"dk":{},"wk":3,"ek":4,"vk":5,"fk":6,"uk":7,"gk":8}`,
	}
)

var BigOperands = func() []struct{ Src, In string } {
	var out []struct{ Src, In string }
	lit := `[31,2,23,10,36,4,27,16,39,9,20,30,6,25,29,3,17,40,8,21]`
	arrOperands := []string{`.`, `.[3:25]`, `.[20:]`, `$big`, lit, `.[:18]`}
	arrBinary := []string{
		`(X - Y)`, `(X + Y | length)`, `(X == Y)`, `(X < Y)`, `(X | contains(Y))`, `(X | inside(Y))`, `(X | index(Y))`, `(X | indices(Y[0:2]))`, `([X, Y] | transpose | length)`, `(X | bsearch(Y[0]))`,
		`([X[], Y[]] | unique | length)`, `(X | map(select(. as $e | Y | index($e))) | length)`, `(X | .[Y[0]:Y[1]])`, `(X | IN(Y, X))`, `([X, Y] | sort | .[0][0])`, `([X, Y] | min | .[0])`, `(X | delpaths([[Y[0]], [0]]) | length)`, `([X, Y] | add | length)`, `([X, Y] | flatten | length)`, `(X | getpath([Y[1]]))`,
	}
	for _, x := range arrOperands {
		for _, y := range arrOperands {
			for _, b := range arrBinary {
				if len(out)%3 != 0 && x != `$big` && y != `$big` && x != lit && y != lit { // keep the list bounded: all pairs with a variable or literal, a third of the others
					out = append(out, struct{ Src, In string }{})
					out = out[:len(out)-1]
				}
				src := strings.ReplaceAll(strings.ReplaceAll(b, "X", x), "Y", y)
				out = append(out, struct{ Src, In string }{src + ", " + x + ", " + y, BigArrJSON})
			}
		}
	}
	arrUnary := []string{`sort`, `sort_by(-.)`, `group_by(. % 3)`, `unique`, `unique_by(. % 7)`, `min_by(-.)`, `max_by(. % 5)`, `reverse`, `flatten`, `add`, `any`, `all`, `to_entries | length`, `[tostream] | length`, `[paths] | length`, `[limit(3; .[])]`, `first, last`, `@csv`, `tojson | length`, `min, max`, `map(. + 1) | add`, `.[5:20] | sort`, `[.[] | tostring] | join(",") | length`, `implode | length`, `. as [$a, $b] | [$b, $a]`, `to_entries | map(.value) | sort | .[0]`, `[.[] | select(. % 2 == 0)] | length`, `index(7), rindex(7)`, `. - [.[0]] | length`, `[.[:20], .[20:]] | transpose | length`, `combinations(2) | select(.[0] == 40 and .[1] == 39)`}
	for _, x := range []string{`.`, `$big`, lit} {
		for _, u := range arrUnary {
			out = append(out, struct{ Src, In string }{"(" + x + " | " + u + "), " + x, BigArrJSON})
		}
	}
	olit := `{"zk":1,"ak":[0],"mk":{"q":1},"bk":2,"yk":3,"ck":4,"xk":5,"dk":6,"wk":7,"ek":8,"vk":9,"fk":10}`
	objOperands := []string{`.`, `$bigo`, olit}
	objOps := []string{`(X + Y | keys | length)`, `(X * Y | keys | length)`, `(X | contains(Y))`, `(X == Y)`, `(X < Y)`, `([X, Y] | unique | length)`, `([X, Y] | sort | .[0] | keys | .[0])`, `([X, Y] | group_by(.ak) | length)`, `([X, Y] | add | keys | length)`, `(X | to_entries | length)`, `(X | keys | .[0])`, `(X | with_entries(.) | keys | length)`, `(X | del(.ak) | keys | length)`, `(X | map_values(.) | keys | length)`, `([X | tostream] | length)`, `([X | paths] | length)`, `(X | tojson | length)`, `(X | has("ak"))`, `(X | to_entries | from_entries | keys | length)`, `(X | [.[]] | length)`, `(X | walk(.) | keys | length)`, `(X | .ak = 1 | keys | length)`, `(X | delpaths([["ak"],["zk"]]) | keys | length)`, `(X | pick(.ak, .zk) | keys)`}
	for _, x := range objOperands {
		for _, y := range objOperands {
			for _, b := range objOps {
				if !strings.Contains(b, "Y") && y != `.` {
					continue
				}
				src := strings.ReplaceAll(strings.ReplaceAll(b, "X", x), "Y", y)
				out = append(out, struct{ Src, In string }{src + ", " + x + ", " + y, BigObjJSON})
			}
		}
	}
	return out
}()

// ErrorSites: every way a run-time error can be raised (by each kind of instruction, in and out
// of path tracking, by natives, by rethrowing handlers) placed in every calling context, with and
// without backtrack points left behind it. After an error has been emitted the iterator must
// still advance; what the next call resumes depends on the instruction that raised the error and
// on what it left on the stack.
var ErrorSites = func() []struct{ Src, In string } {
	errs := []string{
		// iteration
		".[]", "1 | .[]", `"s"[]`, "path([1][])", "path([][])", "path({a:1}[])", "path({}[])", "path(1 | .[])", "path(.. | .[])", "[paths] | .[][]",
		"path([1, 2] | .[])", "path(first([1][]))", "del([1][])", "([1][]) = 2", "([1][]) |= 2", "paths([1][])", "path({a: [1]} | .a[])", "path(. as $p | [1][])", "path(getpath([\"a\"]) | [3][])",
		"path(.[]?, [1][])", "path(([1][])?)", "path(try [1][] catch .)", "path(limit(1; [1][]))", "to_entries | path(.[][])", "path(select([1][]))",
		// indexing
		".a", ".[0]", "1 | .a", `"s" | .a`, "path(1 | .a)", "path([1] | .[0])", "path({a: 1} | .a)", "path([1] | .a)", ".a.b.c", `.["a"]`, ".[1:]", `"abc" | .[{}]`, ".[[1]]", "path(.[1:] | .a)", ".[\"a\", 0]", `.a["b"]`,
		"path({a: 1}.a)", "path([1][0])", "path(\"abc\"[0])", "path(1 as $p | [$p][0])",
		// path end and path functions
		"path(1)", "path([1] | first)", "path(1, .)", "path(., 1)", "path(. + 1)?", "path(tostring)", "path(if . then 1 else . end)", "path(.. | 1)", "paths(1)", "getpath([\"a\"; 1])?", "getpath([\"a\", \"b\"])", "getpath(1)", "setpath(1; 2)", "setpath([\"a\"]; 1)", "setpath([0]; 1)", "delpaths(1)", "delpaths([[\"a\"]])", "del(.a)", "del(.[0])", "del(1)", "to_entries", "pick(.a)", "pick(1)", "pick(first)",
		// natives and operators
		"error", "error(\"x\")", "error(null)", "error({a: 1})", "error(error)", "1 + \"a\"", "{} - 1", "[] | implode", "\"x\" | tonumber", "\"{\" | fromjson", "\"%\" | @base64d", "\"a\" | test(\"(\")", "[1] | join(\",\") | error", "{(1): 2}", "{a: 1} | .[0]", "[1] | has(\"a\")", "keys", "length | error", "ltrimstr(1) | error", "splits(1)", "range(\"a\")", "limit(\"a\"; 1)", "input", "inputs", "$__prog_args?", "tojson | error", "ascii", "[1, [2]] | flatten(-1)", "tostring | error", "infinite | tojson | error", "nan | error", "halt_error", "halt_error(1)", "halt", "[.] | halt_error", "\"bye\\n\" | halt_error",
		// handlers that rethrow, labels
		"try error(\"x\") catch error", "try error catch error(.)", "(error(\"x\"))?", "try (try error(\"x\") catch error) catch error", ".a? | error", "label $e | error(\"x\")", "label $e | (break $e), error(\"y\")", "label $e | try break $e catch .", "first(error(\"x\"))", "limit(1; error(\"x\"))", "isempty(error(\"x\"))", "error(\"x\") // 1", "(1, error(\"x\")) // 2", "reduce error(\"x\") as $p (0; .)", "foreach error(\"x\") as $p (0; .)", "reduce (1, 2) as $p (0; error(\"x\"))", "foreach (1, 2) as $p (0; error(\"x\"))", "foreach (1, 2) as $p (0; .; error(\"x\"))", "error(\"x\") as $p | 1", "error(\"x\") as [$p] | 1", ". as [$p] ?// $p | error(\"x\")", "[error(\"x\")]", "{a: error(\"x\")}", "{(error(\"x\")): 1}", "if error(\"x\") then 1 else 2 end", "if . then error(\"x\") else error(\"y\") end", "error(\"x\") | 1", "-(error(\"x\"))", "error(\"x\") + 1", "1 + error(\"x\")", ".[error(\"x\")]", ".[error(\"x\"):]", "def ef: error(\"x\"); ef", "def ef(g): g; ef(error(\"x\"))", "def ef($p): 1; ef(error(\"x\"))", "def ef: def eg: error(\"x\"); eg; ef", "recurse(error(\"x\"))", "recurse(if . == null then 1 else error(\"x\") end)", "[limit(3; repeat(error(\"x\")))]", "until(false; error(\"x\"))", "walk(error(\"x\"))", "map(error(\"x\"))", "map_values(error(\"x\"))", "with_entries(error(\"x\"))", "sort_by(error(\"x\"))", "group_by(error(\"x\"))", "min_by(error(\"x\"))", "any(error(\"x\"))", "all(error(\"x\"))", "add(error(\"x\"))", "select(error(\"x\"))", "tostream | error", "fromstream(error(\"x\"))", "fromstream(1)", "getpath(error(\"x\"))", "paths(error(\"x\"))", "path(error(\"x\"))", "(.a = error(\"x\"))", "(.a |= error(\"x\"))", "(.a += error(\"x\"))", "(.[] = error(\"x\"))", "(.[] |= error(\"x\"))", "(error(\"x\")) = 1", "(error(\"x\")) |= 1", "del(error(\"x\"))", "to_entries[] | error", "input_line_number | error", "$ENV | error", "env | .[] | error", "ltrimstr(error(\"x\"))", "sub(\"a\"; error(\"x\"))", "[match(\"a\"; \"g\")] | error", "splits(\"a\") | error", "@json \"\\(error(\"x\"))\"", "\"\\(error(\"x\"))\"", "@base64 \"\\(1 | error)\"", "$__loc__ | error", "getpath([\"a\"]) | error", "limit(2; ., error(\"x\"), .)", "first(empty, error(\"x\"))", "last(1, error(\"x\"))", "nth(1; 1, error(\"x\"))", "until(. == 3; error(\"x\"))", "while(true; error(\"x\"))", "[.[]? | error(\"x\")]", "combinations | error", "ascii_downcase", "explode", "ltrimstr(\"a\") | error", "tojson | fromjson | error", "@sh", "@csv", "@tsv", "@uri | error", "@html \"\\(error(\"x\"))\"", "splits(\"(\")", "test(\"a\"; \"z\")", "capture(\"(\")", "scan(1)", "gsub(\"\"; \"a\") | error", "ascii(1)?, error(\"x\")", "implode", "tojson | .[0] | error", "env.PATH | error", "input_filename | error", "now | error", "mktime", "gmtime", "strftime(\"%Y\")", "strptime(\"%Y\")", "todate", "fromdate", "dateadd(\"seconds\"; 1)?", "getpath([\"a\", 0, \"b\"])", "splits(\"a\"; 1)", "ltrimstr(1, 2) | error", "min_by(1, error(\"x\"))", "error(1, 2)", "error(\"a\", \"b\")", "error(empty)", "(error(\"a\"), error(\"b\"))", "(error(\"a\"), 1, error(\"b\"), 2)", "[1, 2][] | error", ".. | error", ".[]? | error", "(1, 2, 3) | if . == 2 then error(\"x\") else . end", "range(3) | [.] | .a", "range(3) | path([1][])", "(1, 2) | path(1)", "(1, 2) | {(.): 1}",
	}
	ctxs := []string{
		"E", "(E), 1", "1, (E)", "(E), (E)", "[1, 2][] | (E)", ".[]? | (E)", "try (E) catch .", "try (E) catch error", "(E)?", "[(E)]", "[(E)?]", "first(E)", "limit(2; E)", "label $o | (E)", "label $o | (E), break $o", "(E) as $q | $q", "(E) // 1", "1 // (E)", "{a: (E)}", "path(E)", "path(E)?", "[paths(E)]?", "def cf: E; cf", "def cf(g): g; cf(E)", "def cf(g): g, g; cf(E)", "def cf($q): $q; cf(E)", "reduce (E) as $q (0; . + 1)", "foreach (E) as $q (0; . + 1)", "reduce (1, 2) as $q (0; E)", "if . then (E) else (E) end", "(E) | (E)", "isempty(E)", "[limit(3; repeat(E))]", "(E) | select(. == 1)", "[.[]? | (E)?]", ". as $q | (E)", "(E), (E)?, (E)", "try ((E), 1) catch (., 2)", "((E)?), 1", "(1, (E)) | tostring", "try error(E) catch .", "(E) |= .", "(E) = 1", "del(E)", ".[]? |= (E)", ".a = (E)", "to_entries? | (E)", "first((E), 1)", "first(1, (E))", "limit(1; 1, (E))", "(label $o | (E)), 1", "[range(2) | (E)]", "[range(2) | try (E) catch .]",
	}
	ins := []string{"null", `[1,[2],{"a":3}]`, `{"a":[1,2],"b":null}`, `"abc"`, "1"}
	var out []struct{ Src, In string }
	k := 0
	for _, c := range ctxs {
		for _, e := range errs {
			k++
			out = append(out, struct{ Src, In string }{strings.ReplaceAll(c, "E", e), ins[k%len(ins)]})
		}
	}
	return out
}()

// Chains: chains of three operands of one binary operator, each operand drawn from values the query
// does not own (parts of the input, null and empty ones among them, a missing key, a literal), with
// the input looked at again afterwards. An operator may hand back one of its operands unchanged
// (`{} + r` is r itself); a later link of the chain must not take that for an intermediate of its own.
var Chains = func() []struct{ Src, In string } {
	var out []struct{ Src, In string }
	in := `{"a":{"p":1,"q":{"r":[1]}},"z":{"s":2,"q":{"t":3}},"e":{},"k":[1,2,3],"l":[],"m":[3,4],"n":null,"s":"x","t":"","i":1,"j":0}`
	objs := []string{".a", ".z", ".e", ".n", ".nokey", "{}", "null", `{"lit": 1}`}
	for _, a := range objs {
		for _, b := range objs {
			for _, c := range objs {
				out = append(out, struct{ Src, In string }{"(" + a + " + " + b + " + " + c + "), .", in})
			}
		}
	}
	arrs := []string{".k", ".l", ".m", ".n", "[]", "null", "[9]"}
	for _, a := range arrs {
		for _, b := range arrs {
			for _, c := range arrs {
				out = append(out, struct{ Src, In string }{"(" + a + " + " + b + " + " + c + "), .", in})
			}
		}
	}
	mobjs := []string{".a", ".z", ".e", "{}", `{"q": {"u": 1}}`}
	for _, a := range mobjs {
		for _, b := range mobjs {
			for _, c := range mobjs {
				out = append(out, struct{ Src, In string }{"(" + a + " * " + b + " * " + c + "), .", in})
			}
		}
	}
	sarrs := []string{".k", ".l", ".m", "[]", "[1]"}
	for _, a := range sarrs {
		for _, b := range sarrs {
			for _, c := range sarrs {
				out = append(out, struct{ Src, In string }{"(" + a + " - " + b + " - " + c + "), .", in})
			}
		}
	}
	// deep merges whose operands collide on objects three levels down: every level written must be a copy
	din := `{"d1":{"a":{"b":{"x":1,"c":{"u":1}},"k":1}},"d2":{"a":{"b":{"y":2,"c":{"v":2}},"k":2}},"d3":{"a":{"b":{"c":{"w":3}}}},"e":{},"arr":[{"a":{"b":{"c":{"p":1}}}},{"a":{"b":{"c":{"q":2}}}},{"a":{"b":{"c":{"r":3}}}}]}`
	deep := []string{".d1", ".d2", ".d3", ".e", `{"a":{"b":{"z":3,"c":{"lit":1}}}}`}
	for _, a := range deep {
		for _, b := range deep {
			out = append(out, struct{ Src, In string }{"(" + a + " * " + b + "), .", din})
			for _, c := range deep {
				out = append(out, struct{ Src, In string }{"(" + a + " * " + b + " * " + c + "), .", din})
			}
		}
	}
	for _, src := range []string{
		`reduce .arr[] as $o ({}; . * $o)`, `reduce .arr[] as $o (.d1; . * $o)`, `.d1 as $b | $b * .arr[]`, `.arr | .[0] * .[1] * .[2]`, `[.arr[] | .a] | .[0] * .[1]`, `.d1 * .d2 | .a.b.c.new = 1`, `(.d1 * .d2), (.d1 * .d3)`, `.d1 * {"a":{"b":{"c":{"u":9}}}}`, `{"a":{"b":{"c":{}}}} * .d1`,
		`.d1 * .d2 * .d1`, `[.d1, .d2, .d3] | add`, `.d1 + .d2 | .a.b.c.new = 1`, `.d1 * (.d2 * .d3)`, `(.d1, .d2) * .d3`, `.d1.a * .d2.a`, `.d1.a.b * .d2.a.b * .d3.a.b`, `.arr[0] * .arr[1] | ., (. * .)`, `. * {"d1":{"a":{"b":{"c":{"n":1}}}}}`, `with_entries(.value |= (objects | . * {"a":{"b":{"m":1}}}))?`,
	} {
		out = append(out, struct{ Src, In string }{"(" + src + "), .", din})
	}
	for _, src := range []string{
		`.s + .t + .s`, `.t + .s + .t`, `.n + .s + .t`, `.i + .j + .n`, `.n + .n + .a`, `.a + .n + .n + .z`, `.e + .a + .e + .z + .e`, `.l + .k + .l + .m + .l`, `(.a + .e) + .z`, `.a + (.e + .z)`, `.e + .a | . + .z`, `[.e, .a, .z] | .[0] + .[1] + .[2]`,
		`. as $d | $d.e + $d.a + $d.z`, `.e as $e | .a as $a | $e + $a + .z`, `reduce (.a, .z) as $o (.e; . + $o)`, `reduce (.e, .a, .z) as $o (null; . + $o)`, `.a + .e + .z | .new = 1`, `(.e + .a + .z), (.e + .a + .z)`, `.k + .l + .m | .[0] = 9`, `.a * .e * .z | .q.w = 1`,
		`.e + .a + {"x": 1}`, `{} + .a + {"x": 1}`, `null + .a + {"x": 1}`, `.a + {} + {"x": 1}`, `.a + null + {"x": 1}`, `.nokey + .a + .z`, `.a + .nokey + .z`, `{"kind": "item"} + .nokey + .z`, `{"kind": "item"} + .e + .z`, `.a + .z + .a`, `.a - 0? , (.e + .a + .z)`,
	} {
		out = append(out, struct{ Src, In string }{"(" + src + "), .", in})
	}
	return out
}()

// BigNumbers: integers beyond the int64 range (big integers are Go pointers: an accumulator that
// adopts its first operand writes into the caller's number) mixed with small ones, as elements of
// the input, as literals of the code and as results fed back, under every arithmetic and ordering
// operation, each followed by another look at the input.
var BigNumbers = func() []struct{ Src, In string } {
	var out []struct{ Src, In string }
	in := `{"b":[100000000000000000000,200000000000000000000,3],"m":[3,100000000000000000000,200000000000000000000],"n":[100000000000000000000,5,300000000000000000000],"o":{"x":100000000000000000000,"y":7},"z":[0,100000000000000000000]}`
	for _, src := range []string{
		`.b | add`, `.m | add`, `.n | add`, `add(.b[])`, `add(.b[0:2][])`, `[.b[0], .b[1]] | add`, `.b[0] + .b[1]`, `.b[0] + .b[2]`, `.b[2] + .b[0]`, `.b[0] - .b[2]`, `.b[2] - .b[0]`, `.b[0] * .b[2]`, `.b[0] / .b[2]`, `.b[0] % .b[2]`, `.b[2] % .b[0]`, `.b[0] % 7`, `.b[0] / 0?`, `.b[0] % 0?`,
		`.b[0] == .b[2]`, `.b[0] < .b[2]`, `.b[2] < .b[0]`, `.b[0] == .b[0]`, `.b | sort`, `.m | sort`, `.b | min, max`, `.b | unique`, `.b | map(. + 1)`, `.b | map(. * 2)`, `.b[0] |= . + 1`, `.b[] |= . + 1`, `reduce .b[] as $x (0; . + $x)`, `reduce .b[] as $x (null; . + $x)`, `foreach .b[] as $x (0; . + $x)`,
		`[.b[] | tostring]`, `.b | tojson`, `.b | contains([3])`, `.b | index(3)`, `.b | group_by(. > 5)`, `[100000000000000000000, 200000000000000000000] | add`, `[100000000000000000000, 200000000000000000000, 1] | add`, `100000000000000000000 + 1`, `100000000000000000000 + .b[0]`, `.o.x + .o.y`, `.o | add`, `[.o[]] | add`,
		`.b[0] as $q | [$q, $q] | add`, `.b | (add, add)`, `.b | add as $s | [$s, .[0]]`, `[.b, .m] | map(add)`, `.b | add | . + 1`, `.b | [add, .[0], .[1]]`, `.z | add`, `.b | add / .[2]`, `.b | add - .[0]`, `.b | sort_by(-.)`, `.b | max_by(.)`, `[.b[] | . % 1000]`, `.b | map(. == 100000000000000000000)`, `.b[0] | ., . + 1, .`,
		`[limit(3; repeat(.b[0] + 1))]`, `.b | first(add), last(add)`, `.b | (.[0] + .[1]), (.[0] + .[1])`, `.b | to_entries | map(.value) | add`, `.b | tostream`, `.b[0] | tojson | fromjson | . + 1`, `.b | @json`, `-(.b[0])`, `.b[0] | abs?`, `.b[0] | floor?`, `.b[0] | tostring | tonumber | . + 1`, `.b | indices(100000000000000000000)`, `.b | inside([100000000000000000000,200000000000000000000,3,4])`,
	} {
		out = append(out, struct{ Src, In string }{"(" + src + "), .", in})
	}
	return out
}()
