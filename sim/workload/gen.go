package workload

import (
	"fmt"
	"reflect"
	"regexp"
	"strconv"
	"strings"

	"github.com/itchyny/gojq"

	"verif/sim/kernel"
)

// Gen is the seeded grammar generator for jq programs and inputs. All
// randomness comes from the Rand it was created with.
type Gen struct {
	r      *kernel.Rand
	vars   []string
	funcs  []genFunc
	labels []string
	budget int
	// Bias selects weights: "" general, "opt" (C04: rewrite preconditions),
	// "mut" (C05/C06: update/delete/sort/slice heavy).
	Bias string
}

type genFunc struct {
	name string
	args []string // "f" (filter) or "$v"
}

func NewGen(seed uint64) *Gen { return &Gen{r: kernel.NewRand(seed)} }

var keys = []string{"a", "b", "c", "d", "k", "v"}

// Value generates a JSON input text.
func (g *Gen) Value(depth int) string {
	r := g.r
	if depth <= 0 {
		return g.scalar()
	}
	switch r.Weighted([]int{4, 5, 5}) {
	case 0:
		return g.scalar()
	case 1:
		n := r.Range(0, 5)
		xs := make([]string, n)
		for i := range xs {
			xs[i] = g.Value(depth - 1)
		}
		return "[" + strings.Join(xs, ",") + "]"
	default:
		n := r.Range(0, 5)
		perm := r.Perm(len(keys))
		xs := make([]string, 0, n)
		for i := 0; i < n; i++ {
			xs = append(xs, strconv.Quote(keys[perm[i]])+":"+g.Value(depth-1))
		}
		return "{" + strings.Join(xs, ",") + "}"
	}
}

var scalars = []string{
	"null", "true", "false", "0", "1", "2", "3", "-1", "10", "1.5", "-2.5", "1e3", "100000000000000000000",
	"9007199254740993", "0.1", `""`, `"a"`, `"b"`, `"abc"`, `"a b c"`, `"héllo"`, `"日本語"`, `"1"`, `"x,y"`, `"\n\t"`, "1e1000", "-0",
}

func (g *Gen) scalar() string { return kernel.Pick(g.r, scalars) }

// Input generates an input spec: usually an object over the known keys so
// that generated paths hit something.
func (g *Gen) Input() kernel.ValueSpec {
	r := g.r
	var js string
	switch r.Weighted([]int{6, 3, 1}) {
	case 0:
		perm := r.Perm(len(keys))
		n := r.Range(2, len(keys))
		xs := make([]string, 0, n)
		for i := 0; i < n; i++ {
			xs = append(xs, strconv.Quote(keys[perm[i]])+":"+g.Value(r.Range(0, 3)))
		}
		js = "{" + strings.Join(xs, ",") + "}"
	case 1:
		n := r.Range(0, 6)
		xs := make([]string, n)
		for i := range xs {
			xs[i] = g.Value(r.Range(0, 2))
		}
		js = "[" + strings.Join(xs, ",") + "]"
	default:
		js = g.scalar()
	}
	s := kernel.ValueSpec{JSON: js}
	if r.Bool(0.15) {
		s.Num = "jsonnumber"
	}
	if r.Bool(0.4) {
		s.Spare = r.Range(1, 4)
	}
	if r.Bool(0.3) {
		s.Alias = true
	}
	return s
}

// Program generates a program and an input for it.
func (g *Gen) Program() (string, kernel.ValueSpec) {
	g.vars, g.funcs, g.labels = nil, nil, nil
	g.budget = g.r.Range(6, 40)
	src := g.expr(g.r.Range(2, 5))
	for n := 0; !ClockFree(src) && n < 20; n++ {
		src = g.expr(g.r.Range(2, 5)) // clock- and zone-dependent natives are outside every property here
	}
	if !ClockFree(src) {
		src = "."
	}
	return src, g.Input()
}

func (g *Gen) spend() bool {
	g.budget--
	return g.budget > 0
}

func (g *Gen) atom() string {
	r := g.r
	switch r.Weighted([]int{6, 10, 3, 3, 2, 6, 3, 2, 2, 1}) {
	case 0:
		return "."
	case 1:
		return "." + kernel.Pick(r, keys)
	case 2:
		return ".[" + strconv.Itoa(r.Range(-1, 3)) + "]"
	case 3:
		return "." + kernel.Pick(r, keys) + "." + kernel.Pick(r, keys)
	case 4:
		if g.Bias == "opt" && r.Bool(0.4) {
			// index and slice by expressions that look constant and are not quite
			x := kernel.Pick(r, []string{g.suffixedLiteral(), "-" + g.suffixedLiteral(), "(1)", "(1 | . + 1)", `("a" + "b")`, "1 as $q | $q", "(0, 1)", "empty", "-(1)", "- 1"})
			return kernel.Pick(r, []string{".[" + x + "]?", ".[" + x + ":]?", ".[:" + x + "]?", ".a[" + x + "]?", "(.[" + x + "]? = 5)?", "-" + x + "?"})
		}
		return kernel.Pick(r, []string{".[1:]", ".[:2]", ".[1:3]", ".[-2:]", `.["a"]`, `."b"`, ".[]?", ".a[]?", ".[0]?", ".a?"})
	case 5:
		return g.literal()
	case 6:
		if len(g.vars) > 0 {
			return kernel.Pick(r, g.vars)
		}
		return "."
	case 7:
		return kernel.Pick(r, []string{"[]", "{}", "[1,2,3]", `{"a":1,"b":[2]}`, `[[1],[2]]`, `{"a":{"b":null}}`, `[3,1,2]`, `["b","a"]`})
	case 8:
		return kernel.Pick(r, []string{"..", ".[]?", "empty", "null", "length", "type", "keys?", "tojson", "tostring", "not", "values", "(.. | numbers)"})
	default:
		return kernel.Pick(r, []string{"input_line_number", "$__loc__", "infinite", "nan", "-infinite", "@json", "@text", "@base64", "ascii_downcase?", "utf8bytelength?"})
	}
}

// suffixed literals: a literal followed by an index, slice or optional suffix is not a constant
func (g *Gen) suffixedLiteral() string {
	r := g.r
	return kernel.Pick(r, []string{`"abc"`, `"a"`, `1`, `[1,2]`, `{"a":1}`, `[0]`, `"k"`, `2.5`, `[[1]]`, `{"a":"b"}`}) +
		kernel.Pick(r, []string{"[1:]", "[0]", "[0]?", ".a", ".a?", "[:1]", "[-1]", "[0:1]", "[]?", "[1]?"})
}

func (g *Gen) literal() string {
	r := g.r
	if g.Bias == "opt" && r.Bool(0.08) {
		return g.suffixedLiteral()
	}
	switch r.Weighted([]int{5, 3, 2, 1, 1}) {
	case 0:
		return kernel.Pick(r, []string{"0", "1", "2", "3", "10", "-1", "-2", "1.5", "100000000000000000000", "-100000000000000000000", "1e2", "0.5", "-0.5", "-0", "9223372036854775807", "-9223372036854775808"})
	case 1:
		return kernel.Pick(r, []string{`"a"`, `"b"`, `"x y"`, `""`, `"k"`, `"é"`, `"a,b"`, `"1"`})
	case 2:
		return kernel.Pick(r, []string{"null", "true", "false"})
	case 3:
		return `"` + kernel.Pick(r, []string{"p", "", "q "}) + `\(` + g.small() + `)` + kernel.Pick(r, []string{"", "s"}) + `"`
	default:
		return kernel.Pick(r, []string{"-(1)", "-(.a?)", "+1", "-.a?", "-(-1)", "- 1", "-1.0", "+.a?"})
	}
}

func (g *Gen) small() string {
	d := g.budget
	g.budget = 3
	s := g.expr(1)
	g.budget = d - 2
	return s
}

var binops = []string{"+", "-", "*", "/", "%", "==", "!=", "<", "<=", ">", ">=", "and", "or", "//"}

func (g *Gen) expr(depth int) string {
	if depth <= 0 || !g.spend() {
		return g.atom()
	}
	r := g.r
	w := []int{8, 10, 5, 6, 5, 4, 4, 3, 3, 3, 3, 3, 8, 5, 5, 3, 3, 2}
	if g.Bias == "opt" && r.Bool(0.06) {
		return g.joinThenConst(depth)
	}
	if g.Bias == "opt" && r.Bool(0.04) {
		return g.valueParamRecursion()
	}
	if r.Bool(0.03) {
		return g.rare(depth)
	}
	switch g.Bias {
	case "opt":
		w = []int{6, 8, 5, 8, 8, 8, 6, 3, 3, 2, 4, 2, 10, 4, 10, 3, 3, 4}
	case "mut":
		w = []int{5, 10, 4, 4, 5, 5, 3, 3, 4, 4, 3, 2, 10, 14, 3, 2, 3, 1}
	}
	switch r.Weighted(w) {
	case 0:
		return g.atom()
	case 1:
		return g.expr(depth-1) + " | " + g.expr(depth-1)
	case 2:
		return "(" + g.expr(depth-1) + ", " + g.expr(depth-1) + ")"
	case 3:
		op := kernel.Pick(r, binops)
		return "(" + g.expr(depth-1) + " " + op + " " + g.expr(depth-1) + ")"
	case 4:
		return g.array(depth)
	case 5:
		return g.object(depth)
	case 6:
		return g.ifExpr(depth)
	case 7:
		if r.Bool(0.5) {
			return "try " + g.postfixable(depth-1) + " catch " + g.postfixable(depth-1)
		}
		return "(" + g.expr(depth-1) + ")?"
	case 8:
		return g.reduce(depth)
	case 9:
		return g.foreach(depth)
	case 10:
		return g.bind(depth)
	case 11:
		return g.label(depth)
	case 12:
		return g.call(depth)
	case 13:
		return g.update(depth)
	case 14:
		return g.funcdef(depth)
	case 15:
		return "(" + g.expr(depth-1) + ")" + kernel.Pick(r, []string{".a", "[0]", "[]?", ".b?", "[1:]", `["a"]`, "[-1]"})
	case 16:
		return "path(" + g.pathExpr(depth-1) + ")"
	default:
		if len(g.labels) > 0 && r.Bool(0.5) {
			return "break " + kernel.Pick(r, g.labels)
		}
		return kernel.Pick(r, []string{"error", `error("x")`, "error(null)", `error({a:1})`, "empty", "halt_error?", "first(empty)"})
	}
}

// joinThenConst: a control-flow join whose last branch emits little or no code, followed directly
// by a constant or a variable load; instruction-level rewrites that merge neighbours must respect
// the join. Placed where a stray or missing stack value shows.
func (g *Gen) joinThenConst(depth int) string {
	r := g.r
	v := "$jx"
	a := kernel.Pick(r, []string{v, v, "1", `"s"`, ".", ".a?", "empty", "null", "[]", v + ".a?"})
	c := kernel.Pick(r, []string{".", "true", "false", ".a?", "(. == null)", "(type == \"number\")", "empty", v})
	j := kernel.Pick(r, []string{
		"if C then A end", "if C then A else . end", "if C then . else A end", "if C then A elif C then . else A end",
		"(A, .)", "(., A)", "(A // .)", "(. // A)", "try A catch .", "(A as $q | .)", "label $z | A", "(A | select(C))",
		"first(A, .)", "(A | values)", "(A?)", "(A | .)", "if C then A else empty end", "(A, empty)", "(empty, A)", "reduce A as $q (.; .)",
	})
	j = strings.ReplaceAll(strings.ReplaceAll(j, "A", a), "C", c)
	k := kernel.Pick(r, []string{"2", v, "[]", "{}", `"k"`, "null", "true", "-1", "(2)", "[1,2]", "{a:1}"})
	e := "(" + j + " | " + k + ")"
	if r.Bool(0.3) {
		e = "(" + j + " | " + k + " | " + kernel.Pick(r, []string{"3", v, "."}) + ")"
	}
	ctx := kernel.Pick(r, []string{"{k: E}", "{k: 1, m: E, z: 2}", "(E - 10)?", "(10 - E)?", "[E, 0]", "[0, E]", "[E] + [7]", "{(E | tostring): 1}", "[E, E]", "(E as $w | [$w, 1])", "[limit(3; E)]", "[E | tostring]", "def jf(x): [x, 1]; jf(E)", "[.[]? | E]", "(E, E)"})
	return "(1 as " + v + " | " + strings.ReplaceAll(ctx, "E", e) + ")"
}

func (g *Gen) postfixable(depth int) string {
	s := g.expr(depth)
	return "(" + s + ")"
}

func (g *Gen) array(depth int) string {
	s := g.array0(depth)
	for strings.Contains(s, "LIT") {
		s = strings.Replace(s, "LIT", kernel.Pick(g.r, []string{"1", "2", `"a"`, "null", "true", "[]", "-1", "{}"}), 1)
	}
	return s
}

func (g *Gen) array0(depth int) string {
	r := g.r
	switch r.Weighted([]int{3, 4, 3, 2}) {
	case 0:
		return "[" + g.expr(depth-1) + "]"
	case 1: // literal-ish arrays: the constant-folding precondition and its near misses
		n := r.Range(1, 4)
		xs := make([]string, n)
		for i := range xs {
			switch r.Weighted([]int{6, 1, 1, 1}) {
			case 0:
				xs[i] = g.literal()
			case 1:
				xs[i] = g.atom()
			case 2:
				xs[i] = "[" + g.literal() + "]"
			default:
				xs[i] = "(" + g.literal() + "," + g.literal() + ")"
			}
		}
		return "[" + strings.Join(xs, ", ") + "]"
	case 2:
		if g.Bias == "opt" && r.Bool(0.5) {
			// the instruction shape of a literal array, reached another way
			return "[" + kernel.Pick(r, []string{"(LIT, .) | LIT", "(., LIT) | LIT", "(LIT, empty) | LIT", "LIT, (.) | LIT", "(LIT, LIT) | LIT", "LIT, (LIT | LIT)", "(LIT, .), LIT | LIT", "(LIT // .) | LIT", "LIT, ., LIT", "(LIT, .)[]?, LIT"}) + "]"
		}
		return "[" + g.expr(depth-1) + " | " + g.expr(depth-1) + "]"
	default:
		return "[.[]? | " + g.expr(depth-1) + "]"
	}
}

func (g *Gen) object(depth int) string {
	r := g.r
	if g.Bias == "opt" && r.Bool(0.12) {
		// the instruction shape of a literal object, reached another way, and the shorthand forms
		return kernel.Pick(r, []string{`{a: ((1, .) | 2)}`, `{a: 1, b: ((2, .) | 3)}`, `{a: (. | 1)}`, `{a: 1, a: 2, b: 3}`, `{"a": 1, a: 2, ("a"): 3}`, `{a: 1, "b": 2} | .a = 9`, `{a}`, `{"a"}`, `{a, b: 1}`, `{$__loc__}`, `{"a\(1)": 2}`, `{(1, 2 | tostring): 3}`, `{a: (1, 2), b: (3, 4)}`, `{a: 1} + {b: .}`, `{a: {b: {c: 1}}} | .a.b.c`, `{a: [1, {b: 2}]} | .a[1].b = 3`, `{(.a? // "k"): 1}`, `{a: -1, b: -(1), c: +1}`, `{"x": 1}.x`, `{a: 1}[]`, `{a: 1} | keys`, `{@json "k\(1)": 1}?`, `{a: empty}`, `{a: 1, b: empty, c: 2}`, `{(empty): 1}`, `{a: 1, b: error("x")}?`})
	}
	n := r.Range(1, 3)
	xs := make([]string, n)
	for i := range xs {
		var k string
		switch r.Weighted([]int{6, 2, 2, 1, 1, 1}) {
		case 0:
			k = kernel.Pick(r, keys)
		case 1:
			k = strconv.Quote(kernel.Pick(r, keys))
		case 2:
			k = "(" + g.small() + ")"
		case 3:
			k = `"x\(` + g.small() + `)"`
		case 4:
			if len(g.vars) > 0 {
				xs[i] = kernel.Pick(r, g.vars)
				continue
			}
			k = "a"
		default:
			xs[i] = kernel.Pick(r, keys)
			continue
		}
		var v string
		switch r.Weighted([]int{5, 4, 1}) {
		case 0:
			v = g.literal()
		case 1:
			v = g.expr(depth - 1)
		default:
			v = "(" + g.literal() + "," + g.literal() + ")"
		}
		if strings.ContainsAny(v, "|,") || strings.Contains(v, " as ") || strings.HasPrefix(v, "def ") || strings.HasPrefix(v, "reduce") || strings.HasPrefix(v, "foreach") || strings.HasPrefix(v, "if ") || strings.HasPrefix(v, "try ") || strings.HasPrefix(v, "label") || strings.HasPrefix(v, "-") || strings.HasPrefix(v, "+") {
			v = "(" + v + ")"
		}
		xs[i] = k + ": " + v
	}
	return "{" + strings.Join(xs, ", ") + "}"
}

func (g *Gen) cond(depth int) string {
	r := g.r
	switch r.Weighted([]int{3, 2, 2, 2, 1}) {
	case 0:
		return kernel.Pick(r, []string{"true", "false", "null", ".", "empty", "1", ".a", ".a?", "(true, false)"})
	case 1:
		return g.expr(depth-1) + " " + kernel.Pick(r, []string{"==", "<", ">", "!="}) + " " + g.atom()
	case 2:
		return kernel.Pick(r, []string{`type == "number"`, `type == "array"`, `type == "object"`, ". == null", "length > 1", `has("a")?`, ". < 3", ". > 1"})
	case 3:
		return g.expr(depth - 1)
	default:
		return "(" + g.cond(depth-1) + " " + kernel.Pick(r, []string{"and", "or"}) + " " + g.cond(depth-1) + ")"
	}
}

func (g *Gen) branch(depth int) string {
	r := g.r
	if g.Bias == "opt" && r.Bool(0.3) {
		// near misses of the constant-branch shape: a literal followed by more code
		return kernel.Pick(r, []string{"(1 | tostring)", "(2, 3)", "1 + 1", "(null | not)", "(\"t\" | length)", "[1] | .[0]", "{a: 1} | .a", "(1 | . as $q | $q)", "-(1)", "(true and false)", "1 // 2", "(1 | select(. > 0))", "[]|length"})
	}
	if r.Bool(0.4) {
		return kernel.Pick(r, []string{"1", "2", "null", `"t"`, "true", "false", ".", "empty", "[]", "{}"})
	}
	return g.expr(depth - 1)
}

func (g *Gen) ifExpr(depth int) string {
	r := g.r
	s := "if " + g.cond(depth) + " then " + g.branch(depth)
	for i := r.Range(0, 1); i > 0; i-- {
		s += " elif " + g.cond(depth) + " then " + g.branch(depth)
	}
	if r.Bool(0.8) {
		s += " else " + g.branch(depth)
	}
	return s + " end"
}

func (g *Gen) freshVar() string {
	return "$" + kernel.Pick(g.r, []string{"x", "y", "z", "v", "w"})
}

func (g *Gen) withVars(vs []string, f func() string) string {
	n := len(g.vars)
	g.vars = append(g.vars, vs...)
	s := f()
	g.vars = g.vars[:n]
	return s
}

func (g *Gen) source(depth int) string {
	r := g.r
	switch r.Weighted([]int{4, 3, 2, 2, 2}) {
	case 0:
		return ".[]?"
	case 1:
		return "range(" + strconv.Itoa(r.Range(0, 5)) + ")"
	case 2:
		return "(" + g.literal() + ", " + g.literal() + ", " + g.atom() + ")"
	case 3:
		return "(" + g.expr(depth-1) + ")"
	default:
		return kernel.Pick(r, []string{".a[]?", "..", "(.a, .b)", "limit(3; repeat(1))", "empty", "(1, error(\"e\"), 2)?", "to_entries[]?", "keys[]?"})
	}
}

func (g *Gen) reduce(depth int) string {
	v := g.freshVar()
	src := g.source(depth)
	init := kernel.Pick(g.r, []string{"0", "[]", "{}", "null", ".", `""`})
	body := g.withVars([]string{v}, func() string {
		if g.r.Bool(0.5) {
			return kernel.Pick(g.r, []string{". + " + v, ". + [" + v + "]", ".[" + v + " | tostring] = " + v, "[., " + v + "]", v, ". + 1", "(., " + v + ")", "empty", ". + [" + v + "] | .[-3:]"})
		}
		return g.expr(depth - 1)
	})
	return "reduce " + src + " as " + v + " (" + init + "; " + body + ")"
}

func (g *Gen) foreach(depth int) string {
	v := g.freshVar()
	src := g.source(depth)
	init := kernel.Pick(g.r, []string{"0", "[]", "null", "."})
	return g.withVars([]string{v}, func() string {
		upd := kernel.Pick(g.r, []string{". + 1", ". + [" + v + "]", v, "[., " + v + "]", "(., .)", "empty", g.expr(depth - 1)})
		s := "foreach " + src + " as " + v + " (" + init + "; " + upd
		if g.r.Bool(0.5) {
			s += "; " + kernel.Pick(g.r, []string{"[" + v + ", .]", ".", "select(. != null)", v, "(., 1)", g.expr(depth - 1)})
		}
		return s + ")"
	})
}

func (g *Gen) bind(depth int) string {
	r := g.r
	src := g.postfixable(depth - 1)
	switch r.Weighted([]int{5, 2, 2, 2}) {
	case 0:
		v := g.freshVar()
		return src + " as " + v + " | " + g.withVars([]string{v}, func() string { return g.expr(depth - 1) })
	case 1:
		return src + " as [$p, $q] | " + g.withVars([]string{"$p", "$q"}, func() string { return g.expr(depth - 1) })
	case 2:
		return src + " as {a: $p, $b} | " + g.withVars([]string{"$p", "$b"}, func() string { return g.expr(depth - 1) })
	default:
		return src + " as [$p] ?// {a: $p} ?// $p | " + g.withVars([]string{"$p"}, func() string { return "[$p]" })
	}
}

func (g *Gen) label(depth int) string {
	l := "$" + kernel.Pick(g.r, []string{"out", "l", "m"})
	g.labels = append(g.labels, l)
	defer func() { g.labels = g.labels[:len(g.labels)-1] }()
	switch g.r.Weighted([]int{3, 3, 1}) {
	case 0:
		return "label " + l + " | " + g.expr(depth-1)
	case 1:
		return "label " + l + " | " + g.source(depth) + " | if " + g.cond(depth-1) + " then break " + l + " else . end"
	default:
		return "label " + l + " | ."
	}
}

var unaryBuiltins = []string{
	"length", "keys?", "values", "add", "sort?", "unique?", "reverse?", "flatten?", "tostring", "tojson", "type", "to_entries?", "from_entries?",
	"paths", "[paths]", "leaf_paths", "min?", "max?", "any?", "all?", "not", "tostream", "[tostream]", "fromstream(tostream)", "recurse", "floor?", "abs?",
	"ascii_downcase?", "explode?", "first?", "last?", "transpose?", "tonumber?", "fromjson?", "keys_unsorted?", "isvalid(.a)", "arrays", "objects", "scalars", "numbers", "strings",
	"getpath([\"a\"])?", "getpath([\"a\",\"b\"])?", "has(\"a\")?", "has(0)?", "contains(1)?", "inside([1,2])?", "index(1)?", "indices(1)?", "join(\",\")?", "split(\",\")?",
	"ltrimstr(\"a\")", "test(\"a\")?", "[match(\"a\"; \"g\")]?", "sub(\"a\"; \"b\")?", "gsub(\"[ab]\"; \"c\")?", "[scan(\"[a-z]\")]?", "splits(\" \")?", "ascii?", "implode?",
	"@base64", "@uri", "@csv?", "@tsv?", "@html", "@sh?", "@json", "@text", "tojson | fromjson", "to_entries? | from_entries?", "combinations?", "walk(.)", "env | length", "$ENV | type",
	"input_line_number", "builtins | length", "splits(\"a\")?", "getpath([])", "paths(type == \"number\")", "pick(.a)?", "pick(.[0])?", "debug?", "halt_error?", "toarray", "have_decnum", "trim?", "ltrim?", "abs?", "tojson | length",
	"min_by(.a)?", "max_by(.a)?", "group_by(.a)?", "unique_by(.a)?", "sort_by(.a)?", "sort_by(.a, .b)?", "del(.a)?", "del(.[0])?", "del(.[1:])?", "del(.a, .b)?", "del(..)?", "delpaths([[\"a\"]])?", "delpaths([[\"a\",\"b\"],[\"a\"]])?",
	"setpath([\"a\"]; 1)?", "setpath([\"a\",\"b\"]; 1)?", "setpath([0]; 1)?", "setpath([]; 1)", "to_entries? | map(.value)", "map_values(.)?", "map_values(empty)?", "map(.)?", "limit(2; .[]?)", "first(.[]?)", "isempty(.[]?)", "add(.[]?)", "[limit(3; repeat(.))]",
	"getpath([\"a\"]) as $g | $g", "ltrimstr(1)", "significand?", "tojson | test(\"a\")", "@base64d?", "ascii_upcase?", "utf8bytelength?", "tostring | length", "infinite", "nan | isnan", "[.[]?] | length", "range(3)", "[range(2; 5)]", "error?", "objects | keys", "arrays | length",
}

func (g *Gen) call(depth int) string {
	r := g.r
	if len(g.funcs) > 0 && r.Bool(0.35) {
		f := kernel.Pick(r, g.funcs)
		return g.callFunc(f, depth)
	}
	switch r.Weighted([]int{10, 4, 3, 3, 2, 2, 2, 2}) {
	case 0:
		return kernel.Pick(r, unaryBuiltins)
	case 1:
		return "map(" + g.expr(depth-1) + ")?"
	case 2:
		return "select(" + g.cond(depth-1) + ")"
	case 3:
		w := kernel.Pick(r, [][2]string{{"first(", ")"}, {"last(", ")"}, {"isempty(", ")"}, {"[limit(2; ", ")]"}, {"[limit(0; ", ")]"}, {"nth(1; ", ")"}, {"add(", ")"}, {"any(", "; .)"}, {"all(", "; .)"}, {"[skip(1; ", ")]"}, {"[limit(3; ", ")]"}, {"until(true; ", ")"}})
		return w[0] + g.expr(depth-1) + w[1]
	case 4:
		return kernel.Pick(r, []string{"sort_by", "group_by", "unique_by", "min_by", "max_by", "map_values", "with_entries", "walk", "recurse", "paths", "del", "path", "to_entries | map", "any", "all"}) + "(" + g.small() + ")?"
	case 5:
		return "[range(" + g.literal() + "; " + g.literal() + ")]?"
	case 6:
		return "(" + g.expr(depth-1) + " | " + kernel.Pick(r, unaryBuiltins) + ")"
	default:
		return kernel.Pick(r, []string{`test("a"; "x")?`, `[match("(a)|(b)"; "g") | .captures | length]?`, `capture("(?<x>[a-z])")?`, `sub("(?<x>a)"; "\(.x)\(.x)")?`, `ascii_downcase? | test("[a-c]+")`, `[splits("a+"; "g")]?`, `gsub("\\s"; "_")?`, `test("A"; "i")?`, `[scan("a"; "g")]?`, `split("a"; null)?`})
	}
}

func (g *Gen) callFunc(f genFunc, depth int) string {
	if len(f.args) == 0 {
		return f.name
	}
	as := make([]string, len(f.args))
	for i := range as {
		as[i] = g.argument(depth - 1)
	}
	return f.name + "(" + strings.Join(as, "; ") + ")"
}

// argument biases towards the one-instruction arguments the compiler inlines.
func (g *Gen) argument(depth int) string {
	r := g.r
	if r.Bool(0.6) {
		return kernel.Pick(r, []string{".", ".a", ".[0]", "1", `"s"`, "null", "empty", "..", "@json", "-1", "[]", "{}", "label $q | .", "length", ".a?", ".[]?", "$__loc__", "input_line_number", "-(1)", "not", "error", "[1,2]", "{a:1}", ".[1:]", "first(.[]?)", "tojson",
			".[]", ".a[]?", "(1, 2)", "(., .)", ".[\"a\"]", ".[-1]", "break $nolabel"[0:0] + "values", "-1.5", "+1", "true", "(.)", "(1)", "((1))", "[.]", "{a: .}", ".a.b", ".[0][0]", "..?", "@text", "keys?"})
	}
	if len(g.vars) > 0 && r.Bool(0.3) {
		return kernel.Pick(r, g.vars)
	}
	return g.expr(depth)
}

func (g *Gen) pathExpr(depth int) string {
	r := g.r
	if depth <= 0 || !g.spend() {
		return kernel.Pick(r, []string{".a", ".b", ".[0]", ".[]?", ".a.b", ".[1:]", ".", ".a[0]?", `.["k"]`, "..", ".[-1]", ".a?", "empty", ".[:2]", ".c.d"})
	}
	if g.Bias == "opt" {
		// rewritable constructs evaluated under path tracking: what a rewrite leaves on the path
		// stack, and which error comes first, must not depend on the rewrite
		switch r.Weighted([]int{80, 10, 5, 5}) {
		case 1:
			return "(" + g.update(depth-1) + ")"
		case 2:
			return "(" + g.expr(depth-1) + ")"
		case 3:
			return kernel.Pick(r, []string{"(.a as [$p] | .b)", "(. as {a: $p} | .a)", "(if true then .a else .b end)", "(if . then .a end)", "({a: 1} | .a)", "([1] | .[0])", "(.a | select(.b?))", "first(.a, .b)", "(.a // .b)", "(.[0] as $p | .[1])", "(def pf: .a; pf)", "(def pf(x): x | .b?; pf(.a))", "(def pf($x): .[$x]?; pf(\"a\"))", "(-(.a))?", "(.a | -1)?", "(.a | [1, 2])?", "(.a | {k: 1})?", "(.a | if . then . else . end)", "limit(1; .a, .b)", "(label $pl | .a, break $pl)", "(try .a catch .b)", "(.a?)", "(reduce .a as $p (.; .b?))", "(foreach .a as $p (.; .b?))"})
		}
	}
	switch r.Weighted([]int{6, 3, 3, 3, 2, 2, 2, 2, 1, 1}) {
	case 0:
		return g.pathExpr(0)
	case 1:
		return g.pathExpr(depth-1) + " | " + g.pathExpr(depth-1)
	case 2:
		return "(" + g.pathExpr(depth-1) + ", " + g.pathExpr(depth-1) + ")"
	case 3:
		return g.pathExpr(depth-1) + " | select(" + g.cond(depth-1) + ")"
	case 4:
		return "first(" + g.pathExpr(depth-1) + ")"
	case 5:
		return "if " + g.cond(depth-1) + " then " + g.pathExpr(depth-1) + " else " + g.pathExpr(depth-1) + " end"
	case 6:
		return "(" + g.pathExpr(depth-1) + " // " + g.pathExpr(depth-1) + ")"
	case 7:
		return kernel.Pick(r, []string{`getpath(["a","b"])`, `getpath(["a"])`, "recurse", "recurse(.[]?)", ".[]?", "limit(1; .[]?)", "(.a,.b)[]?", ".. | numbers", `paths as $p | getpath($p)`, "to_entries? | .[0]?"})
	case 8:
		return "(" + g.pathExpr(depth-1) + ")?"
	default:
		return ".[" + g.small() + "]?"
	}
}

func (g *Gen) update(depth int) string {
	r := g.r
	p := g.pathExpr(r.Range(0, 2))
	switch r.Weighted([]int{4, 5, 3, 2, 3, 2}) {
	case 0:
		return "(" + p + ") = " + g.rhs(depth)
	case 1:
		return "(" + p + ") |= " + g.rhs(depth)
	case 2:
		return "(" + p + ") " + kernel.Pick(r, []string{"+=", "-=", "*=", "/=", "%=", "//="}) + " " + g.rhs(depth)
	case 3:
		return "del(" + p + ")"
	case 4: // constant and near-constant paths: the setpath shortcut and its near misses
		cp := kernel.Pick(r, []string{".a", ".a.b", ".[0]", ".a[1]", ".[1:2]", ".a[1:].b", `.["a"]`, `."a"."b"`, ".a[0].b", ".[0][1]", ".a.b.c.d", ".[2:4][0]", `.["a","b"]`, ".[.a?]", ".a[.b?]?", ".[1.5]", ".[-1]", ".a[:1]", ".[null:2]"})
		return cp + " " + kernel.Pick(r, []string{"=", "=", "|=", "+="}) + " " + g.rhs(depth)
	default:
		return kernel.Pick(r, []string{"to_entries?", "with_entries(.value |= .)?", "map_values(" + g.small() + ")?", "delpaths([path(" + p + ")])", "[paths] as $ps | delpaths($ps[:1])", "pick(" + p + ")?", "setpath(path(" + p + "); 0)?", "reduce path(" + p + ") as $pp (.; setpath($pp; 1))"})
	}
}

func (g *Gen) rhs(depth int) string {
	r := g.r
	if g.Bias == "opt" && r.Bool(0.2) {
		// right-hand sides that behave differently under path tracking: path expressions, literals
		// with suffixes, generators, errors
		return kernel.Pick(r, []string{".b", ".[0]", ".a.b", "..", ".[]?", "first(.b)", "getpath([\"b\"])", "(.a | .b?)", ".. | numbers", "path(.a)", "[paths]", g.suffixedLiteral(), "\"abc\"[1:2]", "[1, 2][0]", "{a: 1}.a", "{a: 1} | .a", "[.b][0]", "(.b, .c)", "(.b // 1)", "(.b?)", "if .b then .b else .c end", ".b as $p | $p", "error(\"r\")", "(.b | error)?", "input?", "$__loc__", "(1 | . as $p | $p)", ".[1:]", "del(.b)", "(.b = 1)", "(.b |= 2)", "to_entries?", "select(.b?)", "recurse(.[]?; . != null) | numbers"})
	}
	switch r.Weighted([]int{4, 3, 2, 2}) {
	case 0:
		return g.literal()
	case 1:
		return kernel.Pick(r, []string{". + 1", "[.]", "{a: .}", "empty", "(1, 2)", ".", "tostring", "length", "not", "null", "(. , .)", "[., .]", "error?", ".a?", "first(.[]?)", "try error catch .", "$__loc__"})
	case 2:
		return "(" + g.expr(depth-1) + ")"
	default:
		if len(g.vars) > 0 {
			return kernel.Pick(r, g.vars)
		}
		return "0"
	}
}

func (g *Gen) funcdef(depth int) string {
	r := g.r
	name := kernel.Pick(r, []string{"f", "g", "h", "ff"})
	var f genFunc
	var body string
	kind := r.Weighted([]int{4, 3, 3, 6})
	nf := len(g.funcs)
	switch kind {
	case 0:
		f = genFunc{name: name}
		body = g.expr(depth - 1)
	case 1:
		f = genFunc{name: name, args: []string{"x"}}
		g.funcs = append(g.funcs, genFunc{name: "x"})
		body = g.expr(depth - 1)
		g.funcs = g.funcs[:nf]
	case 2:
		f = genFunc{name: name, args: []string{"$p"}}
		body = g.withVars([]string{"$p"}, func() string { return g.expr(depth - 1) })
	default:
		// self-recursive shapes: tail and non-tail calls under if/elif/else, //, comma, as, try, reduce
		f, body = g.recursive(name, depth)
	}
	def := "def " + f.name
	if len(f.args) > 0 {
		def += "(" + strings.Join(f.args, "; ") + ")"
	}
	def += ": " + body + "; "
	g.funcs = append(g.funcs, f)
	rest := g.expr(depth - 1)
	if r.Bool(0.6) {
		rest = "(" + g.callFunc(f, depth-1) + " | " + rest + ")"
		if r.Bool(0.5) {
			rest = "[limit(20; " + g.callFunc(f, depth-1) + ")]"
		}
	}
	g.funcs = g.funcs[:nf]
	return def + rest
}

// valueParamRecursion: self-calls of functions whose parameters are `$`-values, with arguments that
// read other parameters (parallel assignment), generators as arguments, and a `$x` parameter used as
// the filter x; in and out of tail position.
func (g *Gen) valueParamRecursion() string {
	r := g.r
	n := strconv.Itoa(r.Range(2, 9))
	def := kernel.Pick(r, []string{
		"def vf($a; $b): if $a < N then vf($b; $a + 1) else [$a, $b] end; vf(0; 1)",
		"def vf($a; $b; $n): if $n == 0 then $a else vf($b; $a + $b; $n - 1) end; vf(0; 1; N)",
		"def vf($a; $b; $n): if $n > 0 then vf($b; $a; $n - 1) else [$a, $b] end; vf(1; 2; N)",
		"def vf($a): if $a < N then vf($a + (1, 2)) else $a end; [limit(12; vf(0))]",
		"def vf($x; $y): if $x < N then vf($x + 1; $x * 2) else [$x, $y] end; vf(0; 0)",
		"def vf($x; $y): if $x < N then vf($x + 1; [$x, $y]) else $y end; vf(0; null)",
		"def vf(g; $a): if $a < N then vf(g; $a + 1 | g) else $a end; vf(. * 2; 0)",
		"def vf($a; g): if $a < N then vf($a + 1; g | . + $a) else g end; 1 | vf(0; .)",
		"def vf($x; $n): if $n > 0 then vf(x + 1; $n - 1) else x end; vf(0; N)",
		"def vf($a; $b): if $a < N then (vf($b; $a + 1), .) else [$a, $b] end; [limit(8; vf(0; 1))]",
		"def vf($a; $b): if $a < N then vf($b; $a + 1) | . else [$a, $b] end; vf(0; 1)",
		"def vf($a; $b): if $a >= N then [$a, $b] elif $a % 2 == 0 then vf($a + 1; $a) else vf($a + 2; $b + $a) end; vf(0; 0)",
		"def vf($a; $b): $a as $s | if $s < N then vf($b + 1; $s) else [$s, $b] end; vf(0; 0)",
		"def vf($a; $b): if $a < N then try vf($b; $a + 1) catch . else error([$a, $b]) end; vf(0; 1)",
		"def vf($a; $b): if $a < N then vf($a + 1; $a + $b) else {a: $a, b: $b} end; vf(0; (1, 10))",
		"def vf($a; $b): label $l | if $a < N then vf($b; $a + 1) else [$a, $b], break $l end; vf(0; 1)",
		"def vf($p; $q): reduce range(2) as $i (0; . + $p) | if $p < N then vf($q + 1; $p) else [., $p, $q] end; vf(0; 0)",
		"def vf($a; $b): if .k < N then (.k += 1 | vf($b; $a + .k)) else [$a, $b, .k] end; {k: 0} | vf(0; 1)",
	})
	return "(" + strings.ReplaceAll(def, "N", n) + ")"
}

func (g *Gen) recursive(name string, depth int) (genFunc, string) {
	r := g.r
	n := strconv.Itoa(r.Range(2, 12))
	guard := "(if type == \"number\" then . else 0 end)"
	step := kernel.Pick(r, []string{". + 1", ". + 2", ". * 2 + 1"})
	withArg := r.Bool(0.25)
	f := genFunc{name: name}
	self := name
	if withArg {
		if r.Bool(0.5) {
			f.args = []string{"x"}
			self = name + "(x)"
		} else {
			f.args = []string{"$p"}
			self = name + "($p)"
		}
	}
	shapes := []string{
		"if . < N then STEP | SELF else . end",
		"if . >= N then . else STEP | SELF end",
		"if . < N then ., (STEP | SELF) else empty end",
		"if . < N then (STEP | SELF), . else . end",
		"if . < N then (STEP | SELF) + 1 else 0 end",
		"if . < N then [STEP | SELF] else . end",
		"if . < 0 then . elif . < N then STEP | SELF else . end",
		"if . < N then STEP | SELF elif . < 0 then SELF else ., . end",
		"(select(. >= N) | .) // (STEP | SELF)",
		"(select(. < N) | STEP | SELF) // .",
		"select(. < N) | (., (STEP | SELF))",
		"if . < N then STEP as $v | $v | SELF else . end",
		"if . < N then try (STEP | SELF) catch . else . end",
		"if . < N then (STEP | SELF)? else . end",
		"if . < N then label $r | STEP | SELF else . end",
		"if . < N then STEP | SELF | . else . end",
		"if . < N then reduce (STEP | SELF) as $v (0; . + $v) else 1 end",
		"if . < N then STEP | def inner: SELF; inner else . end",
		"if . < N then STEP | (SELF, SELF) else . end",
		"if . < N then (STEP | SELF) as $v | [$v] else . end",
		"def SELF2: .; if . < N then STEP | SELF else . end",
		"if . < N then STEP | if . % 2 == 0 then SELF else SELF end else . end",
		"if . < N then {a: (STEP | SELF)} | .a else . end",
		"if . < N then first(STEP | SELF) else . end",
		"if . < N then STEP | SELF , empty else . end",
	}
	body := kernel.Pick(r, shapes)
	body = strings.ReplaceAll(body, "SELF2", name+"_")
	body = strings.ReplaceAll(body, "SELF", self)
	body = strings.ReplaceAll(body, "STEP", step)
	body = strings.ReplaceAll(body, "N", n)
	return f, guard + " | " + body
}

// ---- shrinking helpers ---------------------------------------------------------

var tokenRe = regexp.MustCompile(`"(?:[^"\\]|\\.)*"|[A-Za-z_$@][A-Za-z0-9_:]*|[0-9]+(?:\.[0-9]+)?(?:[eE][+-]?[0-9]+)?|\?//|\|=|//=|[-+*/%]=|==|!=|<=|>=|//|\.\.|\s+|.`)

// ShrinkProgram proposes smaller programs: every closed sub-query of the AST,
// then token-window deletions that still parse.
func ShrinkProgram(src string) []string {
	var out []string
	seen := map[string]bool{src: true}
	add := func(s string) {
		s = strings.TrimSpace(s)
		if s == "" || seen[s] || len(s) >= len(src) {
			return
		}
		if _, err := gojq.Parse(s); err != nil {
			return
		}
		seen[s] = true
		out = append(out, s)
	}
	if q, err := gojq.Parse(src); err == nil {
		var subs []string
		collectQueries(reflect.ValueOf(q), &subs, 0)
		for _, s := range subs {
			add(s)
		}
	}
	toks := tokenRe.FindAllString(src, -1)
	for w := len(toks) / 2; w >= 1; w /= 2 {
		for i := 0; i+w <= len(toks); i += max(1, w/2) {
			add(strings.Join(toks[:i], "") + strings.Join(toks[i+w:], ""))
		}
		if len(out) > 400 {
			break
		}
	}
	// replace literals / sub-terms by simpler ones
	for i, t := range toks {
		if len(t) > 1 && (t[0] == '"' || (t[0] >= '0' && t[0] <= '9')) {
			add(strings.Join(toks[:i], "") + "1" + strings.Join(toks[i+1:], ""))
		}
	}
	return out
}

var queryType = reflect.TypeOf((*gojq.Query)(nil))

func collectQueries(v reflect.Value, out *[]string, depth int) {
	if depth > 60 || !v.IsValid() {
		return
	}
	switch v.Kind() {
	case reflect.Ptr:
		if v.IsNil() {
			return
		}
		if v.Type() == queryType && depth > 0 {
			func() {
				defer func() { recover() }()
				*out = append(*out, v.Interface().(*gojq.Query).String())
			}()
		}
		collectQueries(v.Elem(), out, depth+1)
	case reflect.Struct:
		for i := 0; i < v.NumField(); i++ {
			if v.Type().Field(i).IsExported() {
				collectQueries(v.Field(i), out, depth+1)
			}
		}
	case reflect.Slice:
		for i := 0; i < v.Len(); i++ {
			collectQueries(v.Index(i), out, depth+1)
		}
	}
}

// ShrinkJSON proposes smaller JSON texts.
func ShrinkJSON(js string) []string {
	var out []string
	v, err := kernel.ValueSpec{JSON: js, Num: "jsonnumber"}.Build()
	if err != nil {
		return nil
	}
	seen := map[string]bool{js: true}
	add := func(x any) {
		bs, err := gojq.Marshal(x)
		if err != nil {
			return
		}
		s := string(bs)
		if !seen[s] && len(s) < len(js) {
			seen[s] = true
			out = append(out, s)
		}
	}
	for _, s := range []string{"null", "0", "1", "[]", "{}", `""`} {
		if !seen[s] && len(s) < len(js) {
			seen[s] = true
			out = append(out, s)
		}
	}
	switch v := v.(type) {
	case []any:
		for i := range v {
			add(v[i])
			w := append(append([]any{}, v[:i]...), v[i+1:]...)
			add(w)
		}
		if len(v) > 2 {
			add(v[:len(v)/2])
			add(v[len(v)/2:])
		}
		for i := range v {
			for _, s := range ShrinkJSON(string(mustMarshal(v[i]))) {
				var x any = kernel.MustBuild(kernel.ValueSpec{JSON: s, Num: "jsonnumber"})
				w := append([]any{}, v...)
				w[i] = x
				add(w)
				if len(out) > 200 {
					return out
				}
			}
		}
	case map[string]any:
		ks := sortedKeys(v)
		for _, k := range ks {
			add(v[k])
			w := map[string]any{}
			for _, k2 := range ks {
				if k2 != k {
					w[k2] = v[k2]
				}
			}
			add(w)
		}
		for _, k := range ks {
			for _, s := range ShrinkJSON(string(mustMarshal(v[k]))) {
				w := map[string]any{}
				for _, k2 := range ks {
					w[k2] = v[k2]
				}
				w[k] = kernel.MustBuild(kernel.ValueSpec{JSON: s, Num: "jsonnumber"})
				add(w)
				if len(out) > 200 {
					return out
				}
			}
		}
	case string:
		if len(v) > 1 {
			add(v[:len(v)/2])
		}
	}
	return out
}

func mustMarshal(v any) []byte {
	bs, err := gojq.Marshal(v)
	if err != nil {
		return []byte("null")
	}
	return bs
}

func sortedKeys(m map[string]any) []string {
	ks := make([]string, 0, len(m))
	for k := range m {
		ks = append(ks, k)
	}
	for i := 1; i < len(ks); i++ {
		for j := i; j > 0 && ks[j] < ks[j-1]; j-- {
			ks[j], ks[j-1] = ks[j-1], ks[j]
		}
	}
	return ks
}

var _ = fmt.Sprint

// MutateProgram derives a variant of a (corpus) program by token-level edits that still parse:
// delete a window, duplicate a token, swap neighbours, replace a literal or an identifier.
// All oracles that use it are differential or self-consistent, so any program that parses is fair.
func MutateProgram(r *kernel.Rand, src string) string {
	toks := tokenRe.FindAllString(src, -1)
	if len(toks) == 0 {
		return src
	}
	idents := []string{"length", "keys", "add", "sort", "reverse", "tostring", "tojson", "first", "last", "empty", "not", "type", "floor", "values", "flatten", "unique", "min", "max", "to_entries", "paths", "..", ".", "recurse", "any", "all", "isempty", "error", "ascii_downcase", "explode", "tostream", "input_line_number", "halt_error"}
	lits := []string{"0", "1", "2", "-1", "10", "1.5", "null", "true", "false", `"a"`, `""`, "[]", "{}", "[1,2]", `{"a":1}`, ".a", ".[0]", ".[]?", "100000000000000000000"}
	for try := 0; try < 12; try++ {
		ts := append([]string{}, toks...)
		edits := r.Range(1, 3)
		for e := 0; e < edits && len(ts) > 0; e++ {
			i := r.Intn(len(ts))
			switch r.Intn(7) {
			case 0: // delete a window
				w := r.Range(1, min(4, len(ts)-i))
				ts = append(ts[:i], ts[i+w:]...)
			case 1: // duplicate a token
				ts = append(ts[:i+1], ts[i:]...)
			case 2: // swap neighbours
				if i+1 < len(ts) {
					ts[i], ts[i+1] = ts[i+1], ts[i]
				}
			case 3, 4: // replace a literal or an identifier
				t := ts[i]
				switch {
				case len(t) > 0 && (t[0] == '"' || t[0] >= '0' && t[0] <= '9'):
					ts[i] = kernel.Pick(r, lits)
				case len(t) > 0 && (t[0] >= 'a' && t[0] <= 'z'):
					ts[i] = kernel.Pick(r, idents)
				default:
					ts[i] = kernel.Pick(r, []string{"|", ",", "//", "+", "-", "==", "and"})
				}
			case 5: // wrap the whole program
				w := kernel.Pick(r, []string{"[%s]", "(%s)?", "try (%s) catch .", "first(%s)", "[limit(3; %s)]", "{a: (%s)}", "(%s) as $m | $m", "def m: %s; m", "def m(f): f; m(%s)", "path(%s)?", "[.[]? | (%s)]", "reduce (%s) as $m (0; . + 1)", "label $m | (%s)", "(%s) | tojson", "(%s), ."})
				ts = []string{fmt.Sprintf(w, strings.Join(ts, ""))}
			default: // insert a pipe stage
				ts = append(ts, " | ", kernel.Pick(r, idents))
			}
		}
		out := strings.TrimSpace(strings.Join(ts, ""))
		if out == "" || out == src {
			continue
		}
		if _, err := gojq.Parse(out); err == nil {
			return out
		}
	}
	return src
}

// rare: language features that seldom meet the rewrites and the natives: keyword-named keys,
// comments, format strings with interpolation, destructuring in reduce/foreach, limit(0), long and
// deep literals, unary minus on non-literals, try without catch, closures recursing through closures.
func (g *Gen) rare(depth int) string {
	s := g.rare0(depth)
	for n := 0; strings.Contains(s, "E") && n < 40; n++ {
		i := strings.Index(s, "E")
		if (i > 0 && isWord(s[i-1])) || (i+1 < len(s) && isWord(s[i+1])) {
			s = s[:i] + "\x00" + s[i+1:] // part of a word ($ENV, E-notation): keep
			continue
		}
		s = s[:i] + "(" + g.expr(depth-1) + ")" + s[i+1:]
	}
	return strings.ReplaceAll(s, "\x00", "E")
}

func isWord(c byte) bool {
	return c == '_' || c == '$' || c >= '0' && c <= '9' || c >= 'a' && c <= 'z' || c >= 'A' && c <= 'Z'
}

func (g *Gen) rare0(depth int) string {
	r := g.r
	e := func() string { return "E" }
	switch r.Intn(16) {
	case 0:
		return kernel.Pick(r, []string{`{if: 1, then: 2, and: 3}`, `{if: 1}.if`, `{and: .}.and`, `{or: 1, not: 2} | .or, .not`, `.then?`, `.end?`, `{reduce: 1}.reduce`, `{def: E}.def`, `{"if": 1} | .if`, `{__loc__: 1}.__loc__`, `{true: 1, null: 2} | keys`, `.if? // .else?`})
	case 1:
		return "(" + e() + " # comment ) | nothing\n | " + e() + ")"
	case 2:
		return kernel.Pick(r, []string{`@base64 "x\(E)y"`, `@json "a\(E)b\(1)"`, `@text "\(E)"`, `@sh "echo \(E)"?`, `@uri "\(E)&\(E)"`, `@html "<\(E)>"`, `@csv "\([E])"?`, `"\(E) and \("\(E)")"`, `@base64 "\(@json "\(E)")"`, `{"k\(E)": 1}?`, `{@base64 "k\(1)": E}?`})
	case 3:
		return kernel.Pick(r, []string{"reduce .[]? as [$a, $b] (0; . + 1)", "reduce (E) as {a: $x} (null; [., $x])", "foreach .[]? as [$a] (0; . + 1; [$a, .])", "foreach (E) as {a: $x, $b} (0; . + 1; [$x, $b, .])", "reduce (E) as [$a] ?// $a (0; . + 1)", "foreach (1, 2) as $x (E; . ; [$x, .])?", "reduce (E, E) as $x ((1, 2); . + 1)", "foreach (E) as $x (0; (., 1); .)", "reduce empty as $x (E; .)", "[foreach range(3) as $i (E; .; $i)]"})
	case 4:
		return kernel.Pick(r, []string{"limit(0; E)", "[limit(0; E, error)]", "limit(1; E)", "limit(-1; E)?", "first(limit(0; E), 1)", "[limit(2; E, E, E)]", "limit(E | numbers; 1, 2, 3)?", "isempty(limit(0; E))", "until(true; E)", "[limit(3; repeat(E))] | length"})
	case 5:
		n := kernel.Pick(r, []int{17, 64, 257, 300})
		xs := make([]string, n)
		for i := range xs {
			xs[i] = strconv.Itoa((i * 7) % 11)
		}
		return "[" + strings.Join(xs, ",") + "]" + kernel.Pick(r, []string{"", " | length", "[5]", " | add", " | .[-1]", "[2:4]", " | unique | length"})
	case 6:
		n := kernel.Pick(r, []int{9, 33, 100})
		xs := make([]string, n)
		for i := range xs {
			xs[i] = fmt.Sprintf("k%d: %d", (i*5)%n, i)
		}
		return "{" + strings.Join(xs, ", ") + "}" + kernel.Pick(r, []string{" | length", ".k3", " | keys | length", " | add", " | to_entries | length"})
	case 7:
		d := kernel.Pick(r, []int{5, 30})
		return strings.Repeat("[", d) + kernel.Pick(r, []string{"1", "E", "{a: 1}", ""}) + strings.Repeat("]", d) + kernel.Pick(r, []string{"", " | flatten", " | tojson | length", "[0][0]", " | [paths] | length"})
	case 8:
		d := kernel.Pick(r, []int{4, 25})
		return strings.Repeat("{a: ", d) + kernel.Pick(r, []string{"1", "E", "[1]"}) + strings.Repeat("}", d) + kernel.Pick(r, []string{"", ".a.a", " | tojson | length", " | [paths] | length", " | .a.a.a.a?"})
	case 9:
		return kernel.Pick(r, []string{"-(E)?", "-(.a?)?", "-(1, 2)", "(-(E))?", "[-(.[]?)]?", "-(-(1))", "- 1 - -1", "-(E | numbers)", "def nf: 1; -nf", "1 as $n | -$n", "-(1 as $n | $n)", "-.a?", "-.[0]?", "-length?", "-(\"a\" | length)", "[.[]? | -.]?"})
	case 10:
		return kernel.Pick(r, []string{"try E", "try error", "try (E, error, E)", "[try (E | error)]", "try (try error catch error)", "(try error(E)) // 1", "try E | try E", ".a? |= try E", "try first(E)", "[.[]? | try E]"})
	case 11:
		return kernel.Pick(r, []string{"def cl(g): g | cl(g)?; [limit(3; cl(E))]?", "def cl(g): if . == null then 1 else g end; cl(E)", "def cl(g; h): g | h; cl(E; E)", "def cl(g): def inner: g; inner; cl(E)", "def cl($a; g): [$a, g]; cl(E; E)", "def cl(g): [g, g]; cl(E, 1)", "def cl(g): reduce g as $x (0; . + 1); cl(E)", "def cl(g): path(g)?; cl(.a?)", "def cl(g): g as $x | [$x]; cl(E)", "def cl(g): label $l | g, break $l; cl(E)", "def cl(g): try g catch .; cl(E | error)", "def cl(g): first(g); cl(E, E)"})
	case 12:
		return kernel.Pick(r, []string{". as [$a] ?// {a: $a} ?// $a | [$a]", "(E) as [$a, [$b]] ?// [$a, $b] | [$a, $b]", ".[]? as [$a] ?// $a | $a", "[.[]? as {a: $x} ?// [$x] ?// $x | $x]", "(E) as [$a] ?// $a | if ($a | type) == \"number\" then error else $a end", "[[1, 2], 3][] as [$a] ?// $a | [$a]", ". as {a: [$x]} ?// {a: $x} | $x?"})
	case 13:
		return kernel.Pick(r, []string{"path(getpath([\"a\", \"b\"]))", "path(getpath([\"a\"]) | .b?)", "[paths(getpath([\"a\"])?)]?", "path(.a | getpath([\"b\"]))?", "path(getpath([\"a\", 0])?)", "path(first(getpath([\"a\"]), .b))", "del(getpath([\"a\"]))?", "getpath([\"a\"]) |= E", "(getpath([\"a\"], [\"b\"])) = 1", "path(getpath(E | [.])?)", "[paths] | map(. as $p | $p) | length", "path(..) | length", "path(limit(1; .[]?))", "path(if .a? then .a else .b? end)", "path(.a? // .b?)", "path(try .a catch .b)?", "path(.[]? | select(E))", "path(recurse(.[]?; true) | numbers)?", "path(E)?", "path(first(.a?, .b?))", "path(label $l | .a?, break $l)", "path(reduce (1, 2) as $x (.; .a?))", "path(foreach (1, 2) as $x (.; .a?))", "path(. as $d | .a?)", "path(input?)", "path($__loc__)?", "path(empty)", "path(error)?", "[path(.. | select(type == \"number\"))]", "path(.[1:]? | .[0]?)", "path(.a?[1:]?)", "path(to_entries?)?", "path(def pf: .a?; pf | pf)"})
	case 14:
		return kernel.Pick(r, []string{"ltrimstr(E)?", "rtrimstr(E)?", "[splits(\"a\")]?", "[splits(E | strings)]?", "ascii_downcase?", "ascii_upcase?", "@json", "tojson", "(tojson | fromjson)", "[E] | tojson", "env | type", "$ENV | type", "$ENV.PATH? | type", "input_filename", "[splits(\", *\"; null)]?", "sub(\"(?<x>a)\"; \"\\(.x)b\")?", "[match(\"a\"; \"g\").offset]?", "test(\"A\"; \"i\")?", "ascii?", "implode?", "explode?", "@base32 | @base32d", "@base64 | @base64d?", "tojson | length", "[.. | tojson] | length", "significand?", "logb?", "gamma?", "frexp?", "[.[]? | tostring]", "utf8bytelength?", "ltrimstr(\"a\") | rtrimstr(\"c\")", "trim?", "toarray", "have_literal_numbers", "getpath([\"a\"]; 1)?", "splits(\"\")?", "abs?", "trimstr(\"a\")?", "pick(.a?)?", "debug", "debug(\"m\")", "stderr", "input_line_number?", "$__prog_args?", "halt_error?", "error(null)?", "[limit(3; range(E | numbers))]?", "tostream", "[tostream] | fromstream(.[])", "getpath([\"a\"]) as [$x] | $x", "@sh?", "@csv?", "@tsv?", "@html", "@uri", "@text", "ascii(65)?", "[1, 2] | implode", "\"a,b\" | split(\",\"; null)", "\"abc\" | test(\"B\"; \"ix\")", "\"aXbxc\" | [splits(\"x\"; \"i\")]", "\"2015-03-05T23:51:47Z\" | fromdate", "0 | todate", "0 | gmtime | mktime", "0 | strftime(\"%Y\")", "\"10\" | strptime(\"%H\") | type", "0 | date", "0 | dateadd(\"seconds\"; 1)?", "\"x\" | ltrimstr(1)", "infinite | floor", "nan | tostring", "-0 | tostring", "1e1000 | tostring", "100000000000000000000 | . + 1", "9007199254740993 | tojson", "[1.0, 1.10, 1e2] | tojson", "1.000 | tostring", "(1 / 3) | tostring", "3.0 | floor | tojson", "[limit(5; range(0; 1; 0.3))]", "[range(5; 0; -2)]", "[range(0; 1; 0)] | length?", "pow(2; 0.5) | floor", "[splits(\"\\\\s\")]?"})
	default:
		return kernel.Pick(r, []string{"input?", "[inputs]?", "first(inputs)?", "input as $x | $x?", "try input catch .", "[limit(2; inputs)]?", "(input? // 1)", "$__loc__", "$__loc__.line", "{$__loc__}", "[$__loc__] | length", "try error($__loc__) catch .line", "input_line_number?", "get_search_list?", "[splits(\"a\")?]", "ltrimstr(\"x\")", "modulemeta?", "getpath([\"a\"])?", "halt_error?", "(label $f | E, break $f)", "label $a | label $b | (E, break $a, break $b)", "label $a | (label $b | E, break $a), 9", "[label $a | .[]? | if . == 2 then break $a else . end]", "first(label $a | (E, break $a))", "[range(3) as $i | label $a | $i, break $a]", "label $a | def lf: break $a; (E, lf)", "label $a | try break $a catch .", "label $a | (break $a)?", "def lf(g): label $a | g, break $a; [lf(E)]", "label $a | reduce (1, 2) as $x (0; break $a)", "[label $a | foreach (1, 2, 3) as $x (0; . + $x; if . > 2 then ., break $a else . end)]"})
	}
}
