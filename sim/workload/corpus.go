// Package workload supplies the programs and inputs the simulations run on.
// This half is ordinary seeded generation / corpus reading, not simulation.
package workload

import (
	"fmt"
	"os"
	"path/filepath"
	"regexp"
	"strings"
	"sync"

	"github.com/itchyny/go-yaml"
	"github.com/itchyny/gojq"

	"verif/sim/kernel"
)

// Prog is one library-level workload item.
type Prog struct {
	Src      string             `json:"src"`
	Inputs   []kernel.ValueSpec `json:"inputs"`
	VarNames []string           `json:"var_names,omitempty"`
	VarVals  []kernel.ValueSpec `json:"var_vals,omitempty"`
	Origin   string             `json:"origin,omitempty"`
}

func RepoDir() string {
	if d := os.Getenv("VERIF_REPO"); d != "" {
		return d
	}
	return "/repo"
}

type yamlCase struct {
	Name     string
	Args     []string
	Input    string
	Env      []string
	Expected string
	Error    string
	ExitCode int `yaml:"exit_code"`
}

var (
	corpusOnce sync.Once
	corpus     []Prog
	corpusErr  error
	rawCases   []yamlCase
)

var timeName = regexp.MustCompile(`\b(now|localtime|strflocaltime|mktime|strptime|todate|localdate|date|fromdate|dateadd|datesub|dateadd|input|inputs|input_filename|debug|stderr|import|include|modulemeta)\b`)

// Deterministic reports whether a program text avoids the names whose result
// depends on the clock, the local time zone, the input iterator, the
// command's custom functions or the module loader.
func Deterministic(src string) bool { return !timeName.MatchString(src) }

var clockName = regexp.MustCompile(`\b(now|localtime|strflocaltime|localdate)\b`)

// ClockFree reports whether a program reads neither the clock nor the local time zone.
func ClockFree(src string) bool { return !clockName.MatchString(src) }

var hugeLiteral = regexp.MustCompile(`[0-9]{7,}|[0-9]e[0-9]{1,}|E[0-9]|infinite`)

// Tame reports whether a program avoids literals that make single natives allocate or loop for
// seconds (string repetition by 1e9, range(1e9), ...): used where runs are not cut between polls.
func Tame(src string) bool { return !hugeLiteral.MatchString(src) }

// Corpus loads cli/test.yaml from the current tree and keeps the cases that
// reduce to (query, JSON inputs[, --arg/--argjson variables]).
func Corpus() ([]Prog, error) {
	corpusOnce.Do(func() {
		f, err := os.Open(filepath.Join(RepoDir(), "cli", "test.yaml"))
		if err != nil {
			corpusErr = err
			return
		}
		defer f.Close()
		if err := yaml.NewDecoder(f).Decode(&rawCases); err != nil {
			corpusErr = fmt.Errorf("cli/test.yaml: %w", err)
			return
		}
		seen := map[string]bool{}
		for _, tc := range rawCases {
			p, ok := reduce(tc)
			if !ok {
				continue
			}
			key := p.Src + "\x00" + fmt.Sprint(p.Inputs) + fmt.Sprint(p.VarNames, p.VarVals)
			if seen[key] {
				continue
			}
			seen[key] = true
			corpus = append(corpus, p)
		}
	})
	return corpus, corpusErr
}

func reduce(tc yamlCase) (Prog, bool) {
	var p Prog
	p.Origin = "corpus:" + tc.Name
	if len(tc.Env) > 0 {
		return p, false
	}
	query, haveQuery, null := ".", false, false
	slurp := false
	args := tc.Args
	for i := 0; i < len(args); i++ {
		a := args[i]
		switch a {
		case "-c", "-r", "-j", "-e", "--tab", "-M", "--compact-output", "--raw-output", "--exit-status", "--join-output", "-S":
		case "-n", "--null-input":
			null = true
		case "-s", "--slurp":
			slurp = true
		case "-nr", "-rn", "-nc", "-cn", "-ne", "-en", "-nj":
			null = true
		case "-cr", "-rc":
		case "--indent":
			i++
		case "--arg", "--argjson":
			if i+2 >= len(args) {
				return p, false
			}
			name, val := args[i+1], args[i+2]
			i += 2
			for _, n := range p.VarNames {
				if n == "$"+name {
					return p, false
				}
			}
			if a == "--arg" {
				val = fmt.Sprintf("%q", val)
				if _, ok := kernel.ParseJSONStream(val); !ok {
					return p, false
				}
			} else if docs, ok := kernel.ParseJSONStream(val); !ok || len(docs) != 1 {
				return p, false
			}
			p.VarNames = append(p.VarNames, "$"+name)
			p.VarVals = append(p.VarVals, kernel.ValueSpec{JSON: val})
		default:
			if strings.HasPrefix(a, "-") && a != "-" || haveQuery {
				return p, false
			}
			query, haveQuery = strings.TrimSpace(a), true
		}
	}
	p.Src = query
	if null {
		p.Inputs = []kernel.ValueSpec{{JSON: "null"}}
		return p, true
	}
	docs, ok := kernel.ParseJSONStream(tc.Input)
	if !ok {
		return p, false
	}
	if slurp {
		p.Inputs = []kernel.ValueSpec{{JSON: "[" + strings.Join(docs, ",") + "]"}}
		return p, true
	}
	if len(docs) == 0 {
		return p, false
	}
	for _, d := range docs {
		p.Inputs = append(p.Inputs, kernel.ValueSpec{JSON: d})
	}
	return p, true
}

// Compile parses and compiles a program with its variables.
func (p Prog) Compile(opts ...gojq.CompilerOption) (*gojq.Query, *gojq.Code, error) {
	q, err := gojq.Parse(p.Src)
	if err != nil {
		return nil, nil, err
	}
	if len(p.VarNames) > 0 {
		opts = append(opts, gojq.WithVariables(p.VarNames))
	}
	c, err := gojq.Compile(q, opts...)
	return q, c, err
}

func (p Prog) BuildVars() []any {
	vs := make([]any, len(p.VarVals))
	for i, s := range p.VarVals {
		vs[i] = kernel.MustBuild(s)
	}
	return vs
}
