// maporder rewrites, in a scratch copy of the repository, every `range` over a
// map in packages gojq and gojq/cli so that the iteration order is supplied by
// the simulator (package verifmap added to the copy). Go randomises map order
// and offers no switch; every permutation is legal, so code that is correct
// must not care which one it gets.
//
// usage: maporder <dir-of-scratch-copy>
package main

import (
	"fmt"
	"go/ast"
	"go/build"
	"go/importer"
	"go/parser"
	"go/token"
	"go/types"
	"os"
	"path/filepath"
	"sort"
	"strings"
)

const verifmapSrc = `// Package verifmap supplies the iteration order of every rewritten map range.
package verifmap

import (
	"fmt"
	"sort"
)

// Mode selects the permutation: 0 sorted, 1 reverse sorted, 2 rotated by one, 3 seeded shuffle.
var Mode int

// Seed parametrises mode 3.
var Seed uint64 = 1

// Calls counts executed map ranges.
var Calls int

func Keys[K comparable, V any](m map[K]V, site string) []K {
	Calls++
	ks := make([]K, 0, len(m))
	for k := range m {
		ks = append(ks, k)
	}
	sort.Slice(ks, func(i, j int) bool { return fmt.Sprint(ks[i]) < fmt.Sprint(ks[j]) })
	switch Mode {
	case 1:
		for i, j := 0, len(ks)-1; i < j; i, j = i+1, j-1 {
			ks[i], ks[j] = ks[j], ks[i]
		}
	case 2:
		if len(ks) > 1 {
			ks = append(ks[1:], ks[0])
		}
	case 3:
		s := Seed + uint64(len(ks))*0x9e3779b97f4a7c15
		for _, c := range site {
			s = s*1099511628211 + uint64(c)
		}
		for i := len(ks) - 1; i > 0; i-- {
			s += 0x9e3779b97f4a7c15
			z := s
			z = (z ^ (z >> 30)) * 0xbf58476d1ce4e5b9
			z = (z ^ (z >> 27)) * 0x94d049bb133111eb
			z ^= z >> 31
			j := int(z % uint64(i+1))
			ks[i], ks[j] = ks[j], ks[i]
		}
	}
	return ks
}
`

type edit struct {
	from, to int
	text     string
}

func main() {
	if len(os.Args) < 2 {
		fmt.Fprintln(os.Stderr, "usage: maporder <dir>")
		os.Exit(2)
	}
	root := os.Args[1]
	if err := os.Chdir(root); err != nil {
		fail(err)
	}
	os.MkdirAll("verifmap", 0o755)
	if err := os.WriteFile("verifmap/verifmap.go", []byte(verifmapSrc), 0o644); err != nil {
		fail(err)
	}
	total, unresolved := 0, 0
	for _, dir := range []string{".", "cli"} {
		n, u, err := rewriteDir(dir)
		if err != nil {
			fail(err)
		}
		total += n
		unresolved += u
	}
	fmt.Printf("maporder: %d map ranges rewritten, %d left alone (unsupported form)\n", total, unresolved)
	if total == 0 {
		fail(fmt.Errorf("no map range found: the rewriter does not understand this tree"))
	}
}

func fail(err error) {
	fmt.Fprintln(os.Stderr, "maporder:", err)
	os.Exit(1)
}

func rewriteDir(dir string) (int, int, error) {
	ctx := build.Default
	ctx.BuildTags = append(ctx.BuildTags, "verif")
	pkg, err := ctx.ImportDir(dir, 0)
	if err != nil {
		return 0, 0, err
	}
	fset := token.NewFileSet()
	var files []*ast.File
	var names []string
	for _, f := range pkg.GoFiles {
		af, err := parser.ParseFile(fset, filepath.Join(dir, f), nil, parser.ParseComments)
		if err != nil {
			return 0, 0, err
		}
		files = append(files, af)
		names = append(names, filepath.Join(dir, f))
	}
	info := &types.Info{Types: map[ast.Expr]types.TypeAndValue{}}
	conf := types.Config{Importer: importer.ForCompiler(fset, "source", nil), Error: func(error) {}}
	conf.Check(pkg.ImportPath, fset, files, info) // errors in dependencies are tolerated; unresolved ranges are reported
	n, unresolved := 0, 0
	for i, af := range files {
		src, err := os.ReadFile(names[i])
		if err != nil {
			return 0, 0, err
		}
		var edits []edit
		ast.Inspect(af, func(nd ast.Node) bool {
			rs, ok := nd.(*ast.RangeStmt)
			if !ok {
				return true
			}
			tv, ok := info.Types[rs.X]
			if !ok || tv.Type == nil {
				return true
			}
			if _, isMap := tv.Type.Underlying().(*types.Map); !isMap {
				return true
			}
			if !pure(rs.X) {
				unresolved++
				fmt.Printf("maporder: %s: range expression not a plain operand, left alone\n", fset.Position(rs.Pos()))
				return true
			}
			n++
			x := string(src[fset.Position(rs.X.Pos()).Offset:fset.Position(rs.X.End()).Offset])
			site := fmt.Sprintf("%s:%d", filepath.Base(names[i]), fset.Position(rs.Pos()).Line)
			id := fmt.Sprintf("%d", n)
			key, val := identName(rs.Key), identName(rs.Value)
			if key == "?" || val == "?" {
				n--
				unresolved++
				fmt.Printf("maporder: %s: range variables are not plain identifiers, left alone\n", fset.Position(rs.Pos()))
				return true
			}
			var sb strings.Builder
			kvar := key
			if key == "" || key == "_" || rs.Tok == token.ASSIGN {
				kvar = "verifKey" + id
			}
			fmt.Fprintf(&sb, "for _, %s := range verifmap.Keys(%s, %q) {", kvar, x, site)
			if rs.Tok == token.ASSIGN && key != "" && key != "_" {
				fmt.Fprintf(&sb, " %s = %s;", key, kvar)
			}
			okv := "verifOk" + id
			switch {
			case val == "" || val == "_":
				fmt.Fprintf(&sb, " if _, %s := (%s)[%s]; !%s { continue };", okv, x, kvar, okv)
			case rs.Tok == token.ASSIGN:
				fmt.Fprintf(&sb, " var %s bool; %s, %s = (%s)[%s]; if !%s { continue };", okv, val, okv, x, kvar, okv)
			default:
				fmt.Fprintf(&sb, " %s, %s := (%s)[%s]; if !%s { continue };", val, okv, x, kvar, okv)
			}
			edits = append(edits, edit{fset.Position(rs.Pos()).Offset, fset.Position(rs.Body.Lbrace).Offset + 1, sb.String()})
			return true
		})
		if len(edits) == 0 {
			continue
		}
		sort.Slice(edits, func(a, b int) bool { return edits[a].from > edits[b].from })
		out := string(src)
		for _, e := range edits {
			out = out[:e.from] + e.text + out[e.to:]
		}
		// import verifmap right after the package clause
		pend := fset.Position(af.Name.End()).Offset
		out = out[:pend] + "\n\nimport verifmap \"github.com/itchyny/gojq/verifmap\"\n" + out[pend:]
		if err := os.WriteFile(names[i], []byte(out), 0o644); err != nil {
			return 0, 0, err
		}
	}
	return n, unresolved, nil
}

func identName(e ast.Expr) string {
	if e == nil {
		return ""
	}
	if id, ok := e.(*ast.Ident); ok {
		return id.Name
	}
	return "?"
}

// pure: an identifier or a selector chain, safe to evaluate more than once.
func pure(e ast.Expr) bool {
	switch e := e.(type) {
	case *ast.Ident:
		return true
	case *ast.SelectorExpr:
		return pure(e.X)
	case *ast.ParenExpr:
		return pure(e.X)
	}
	return false
}
