// verifsim is the deterministic simulator for the gojq properties.
package main

import (
	"verif/sim/kernel"
	"verif/sim/props/c04"
	"verif/sim/props/c05"
	"verif/sim/props/c06"
	"verif/sim/props/c07"
	"verif/sim/props/c17"
	"verif/sim/props/cmdsim"
)

func main() {
	kernel.Main(map[string]kernel.Property{
		"C04": c04.Prop{},
		"C05": c05.Prop{},
		"C06": c06.Prop{},
		"C07": c07.Prop{},
		"C15": cmdsim.C15{},
		"C16": cmdsim.C16{},
		"C17": c17.Prop{},
	})
}
