#!/bin/bash
# Determinism self-test of the simulator: for a sample of units of every
# property, the child process is run in fresh processes at GOMAXPROCS 1, 4 and
# 16, twice each; everything a child reports (counters, hashed case sets,
# samples, violations) must be byte-identical across the six runs.
#   ./selftest.sh [tier] [units-per-property] [ids...]
set -u
VERIF=$(cd "$(dirname "$0")" && pwd)
tier=${1:-quick}; n=${2:-40}; shift 2 2>/dev/null
ids=${*:-C04 C05 C06 C07 C15 C16 C17}
export VERIF_DIR=$VERIF VERIF_SEED=${VERIF_SEED:-1}
"$VERIF/check" setup >/dev/null || exit 2
BIN=$VERIF/bin
work=$VERIF/.build/selftest-$$
mkdir -p "$work"
trap 'rm -rf "$work"' EXIT
fail=0
for id in $ids; do
  bin=$BIN/verifsim
  envs=""
  case $id in
    C06) bin=$BIN/verifsim-race; envs="GORACE=halt_on_error=0:exitcode=0:log_path=$work/race VERIF_RACE_LOG=$work/race";;
    C05) [ -x "$BIN/verifsim-maporder" ] && bin=$BIN/verifsim-maporder;;
  esac
  total=$("$BIN/verifsim" units "$id" "$tier")
  step=$(( total / n )); [ "$step" -lt 1 ] && step=1
  units=$(seq 0 "$step" $(( total - 1 )) | head -n "$n")
  jobs=()
  for u in $units; do
    for gmp in 1 4 16; do for rep in a b; do
      echo "$u $gmp $rep"
    done; done
  done > "$work/jobs-$id"
  run_one() {
    id=$1; bin=$2; work=$3; tier=$4; envs=$5; u=$6; gmp=$7; rep=$8
    d="$work/$id-$u-$gmp-$rep"; mkdir -p "$d"
    env $envs GOMAXPROCS=$gmp VERIF_SCRATCH="$d" "$bin" child -prop "$id" -tier "$tier" -seed "$VERIF_SEED" -shard 0 -of 1 -only "$u" -out "$d/result.json" -mark "$d/mark.json" >"$d/log" 2>&1
    echo "$? $(sha256sum < "$d/result.json" 2>/dev/null | cut -c1-16)" > "$d/hash"
  }
  export -f run_one
  xargs -P 16 -L 1 bash -c 'run_one "$0" "$1" "$2" "$3" "$4" $5 $6 $7' "$id" "$bin" "$work" "$tier" "$envs" < "$work/jobs-$id"
  bad=0
  for u in $units; do
    if [ "$(cat "$work/$id-$u"-*-*/hash | sort -u | wc -l)" -ne 1 ]; then
      echo "NONDETERMINISTIC: property=$id unit=$u: $(cat "$work/$id-$u"-*-*/hash | sort | uniq -c | tr '\n' ';')"
      bad=1; fail=1
    fi
  done
  cnt=$(echo "$units" | wc -l)
  [ $bad -eq 0 ] && echo "deterministic: property=$id tier=$tier units_sampled=$cnt runs=$(( cnt * 6 )) (GOMAXPROCS 1/4/16 x 2 fresh processes)"
done
exit $fail
