#!/bin/bash
# run_seed.sh <property-id> <seed-name> [tier]: run the property's check against a stored seeded change (scratch worktree).
set -u
id=$1; name=$2; tier=${3:-quick}
dir=$(mktemp -d /root/scratch/seedrun-XXXXXX); rmdir "$dir"
git -C /repo worktree add -q --detach "$dir" HEAD || exit 2
{ git -C "$dir" apply "/verif/seeded/$name/patch.diff" 2>/dev/null || git -C "$dir" apply -3 "/verif/seeded/$name/patch.diff" >/dev/null 2>&1; } || { echo "patch does not apply"; git -C /repo worktree remove --force "$dir"; exit 2; }
out=$(VERIF_REPO=$dir /verif/check "$id" "$tier" -no-evidence 2>&1); rc=$?
sfx=$(echo "$dir" | tr '/' '_')
rm -f /verif/bin/*"$sfx" /verif/.build/*"$sfx"*
git -C /repo worktree remove --force "$dir"; git -C /repo worktree prune
echo "$out" | grep -E "^---- violation|^VIOLATION|^verifsim:.*wall|^INFRA" | cut -c1-200 | head -12
echo "exit=$rc"
