#!/usr/bin/env python3
"""Helper to author mutants: apply textual edits to a scratch worktree of /repo,
check that it builds and passes the repository's suite, write the diff to
/verif/mutants/<name>.patch.   usage: import and call mutant(name, edits)"""
import subprocess, os, sys
W = '/root/scratch/m'
ENV = 'export GOFLAGS=-mod=mod GOPROXY=off GOSUMDB=off GOTOOLCHAIN=local; '
def setup():
    subprocess.run('rm -rf %s; git -C /repo worktree prune; git -C /repo worktree add -q --detach %s HEAD' % (W, W), shell=True, check=True)
def teardown():
    subprocess.run('git -C /repo worktree remove --force %s; git -C /repo worktree prune' % W, shell=True)
def mutant(name, edits, test=True, outdir='/verif/mutants'):
    subprocess.run(['git', '-C', W, 'checkout', '-q', '--', '.'], check=True)
    for f, old, new in edits:
        p = os.path.join(W, f)
        s = open(p).read()
        if old not in s:
            print(name, 'EDIT DOES NOT APPLY:', old[:60]); return False
        open(p, 'w').write(s.replace(old, new, 1))
    r = subprocess.run(ENV + 'cd %s && go1.26.8 build ./... && go1.26.8 vet ./... 2>&1 | grep -v "^#" | head -5' % W, shell=True, capture_output=True, text=True)
    if r.returncode != 0:
        print(name, 'BUILD FAIL', r.stderr[:800]); return False
    if test:
        r = subprocess.run(ENV + 'cd %s && timeout 300 go1.26.8 test -count=1 -timeout 200s ./... 2>&1 | tail -15' % W, shell=True, capture_output=True, text=True)
        if 'FAIL' in r.stdout or 'panic' in r.stdout:
            print(name, 'SUITE FAILS (mutant rejected):', r.stdout[-600:]); return False
    d = subprocess.run(['git', '-C', W, 'diff'], capture_output=True, text=True).stdout
    open(os.path.join(outdir, name + '.patch'), 'w').write(d)
    print(name, 'ok')
    return True
