#!/bin/bash
# keep_seed.sh <property-id> <agent-worktree> <name> <demo-go-test-regex> <demo-package>
# Confirms a seeded change independently in a fresh scratch worktree and stores it under /verif/seeded/<name>/.
set -u
id=$1; wt=$2; name=$3; demo=${4:-TestSeededDemo}; pkg=${5:-./...}
export GOFLAGS=-mod=mod GOPROXY=off GOSUMDB=off GOTOOLCHAIN=local
dst=/verif/seeded/$name
mkdir -p "$dst/demo"
git -C "$wt" diff > "$dst/patch.diff"
[ -s "$dst/patch.diff" ] || { echo "empty patch"; exit 1; }
# untracked files = demonstration + notes
(cd "$wt" && git ls-files --others --exclude-standard) | while read -r f; do
  mkdir -p "$dst/demo/$(dirname "$f")"; cp "$wt/$f" "$dst/demo/$f"
done
scratch=/root/scratch/seedverify-$$
git -C /repo worktree add -q --detach "$scratch" HEAD || exit 2
trap 'git -C /repo worktree remove --force "$scratch"; git -C /repo worktree prune' EXIT
(cd "$dst/demo" && find . -type f ! -name SEEDED.md ! -name '*.md') | while read -r f; do mkdir -p "$scratch/$(dirname "$f")"; cp "$dst/demo/$f" "$scratch/$f"; done
cd "$scratch"
echo "--- without the change: demo must pass"
timeout 600 go1.26.8 test -count=1 ${SEED_TAGS:+-tags $SEED_TAGS} -run "$demo" $pkg > "$dst/demo_without.log" 2>&1; rc_without=$?
tail -3 "$dst/demo_without.log"
git apply "$dst/patch.diff" || { echo "patch does not apply to HEAD"; exit 1; }
echo "--- with the change: build + suite (demo skipped) must pass, demo must fail"
go1.26.8 build ./... && go1.26.8 build -tags verif ./... ; rc_build=$?
timeout 1200 go1.26.8 test -count=1 -skip "$demo" ./... > "$dst/suite_with.log" 2>&1; rc_suite=$?
tail -3 "$dst/suite_with.log"
timeout 600 go1.26.8 test -count=1 ${SEED_TAGS:+-tags $SEED_TAGS} -run "$demo" $pkg > "$dst/demo_with.log" 2>&1; rc_with=$?
tail -5 "$dst/demo_with.log"
echo "build=$rc_build suite=$rc_suite demo_without=$rc_without demo_with=$rc_with"
if [ $rc_build -eq 0 ] && [ $rc_suite -eq 0 ] && [ $rc_without -eq 0 ] && [ $rc_with -ne 0 ]; then
  echo "CONFIRMED $name"
  exit 0
fi
echo "NOT CONFIRMED $name"
exit 1
