#!/bin/bash
# replay_test.sh: for one mutant per property, run the quick check in a scratch worktree, then replay
# every replay file it wrote in a fresh process against the same tree (must reproduce: exit 1) and
# against the unchanged tree (must say diverged: exit 2).
set -u
cd /verif
declare -A M=( [C04]=mutants/C04-revert-fix-label-inline.patch [C05]=mutants/C05-opadd-arrays-append.patch [C06]=mutants/C06-revert-fix-deleteempty.patch [C07]=mutants/C07-revert-fix-exhausted.patch [C15]=mutants/C15-exit-status-sticky-truthy.patch [C16]=mutants/C16-slurp-stops-at-source-boundary.patch [C17]=mutants/C17-revert-fix-readahead.patch )
for id in ${*:-C04 C05 C06 C07 C15 C16 C17}; do
  dir=$(mktemp -d /root/scratch/rt-XXXXXX); rmdir "$dir"
  git -C /repo worktree add -q --detach "$dir" HEAD && git -C "$dir" apply "/verif/${M[$id]}" || { echo "$id: cannot prepare"; continue; }
  rm -rf replays; VERIF_REPO=$dir ./check $id quick -no-evidence >/dev/null 2>&1
  n=0; ok=0; div=0
  for f in replays/*.json; do
    [ -f "$f" ] || continue
    n=$((n+1))
    VERIF_REPO=$dir ./check replay "$f" >/dev/null 2>&1; [ $? -eq 1 ] && ok=$((ok+1))
    ./check replay "$f" >/dev/null 2>&1; [ $? -eq 2 ] && div=$((div+1))
  done
  echo "$id: replay files=$n reproduced_on_mutant=$ok diverged_on_unchanged_tree=$div"
  sfx=$(echo "$dir" | tr '/' '_'); rm -f bin/*"$sfx" .build/*"$sfx"*
  git -C /repo worktree remove --force "$dir"
done
git -C /repo worktree prune
